//! C17 — squash: libraries whose block-reference graphs are trees, DAGs with sharing, cycles,
//! self-loops and dangling targets; `Graph::squash(key, depth)` and the CLI path (squashed
//! tree -> `build_key_from_iter` on a fresh graph -> `export_key`, main.rs:171-180) are run in
//! a thread with a time limit, so that a hang is an observation.  The case embeds the library
//! case of lib_stage.rs (reader blocks, arena, collected trees) so that the Coq side builds
//! the model graph from the same inputs.
//!
//! Tree -> arena (stages 5-8 of Check_C17.v, the tie of TreeBuild.v to the code): in the CLI
//! path the ARENA of the fresh graph after `build_key_from_iter` (every slot: kind with its
//! lines, prev, next, child) and the tree `collect`ed back from it are dumped too, and a
//! stream of hand-made trees (`"trees"` of an input: valid shapes, leaves / references / tables
//! with children, inner Document nodes with following siblings, roots that are not documents,
//! childless documents) goes through the same call under catch_unwind.
use crate::dump;
use crate::gal::*;
use crate::gen::{dir_of, rel_url};
use crate::lib_stage;
use crate::rng::Rng;
use crate::PropModule;
use liwe::graph::{Graph, GraphContext};
use liwe::model::config::MarkdownOptions;
use liwe::model::document::LinkType;
use liwe::model::graph::GraphInline;
use liwe::model::node::{ColumnAlignment, Node, Reference, ReferenceType, Table};
use liwe::model::tree::{Tree, TreeIter};
use liwe::model::Key;
use serde_json::{json, Value};
use std::panic::{catch_unwind, AssertUnwindSafe};
use std::sync::mpsc;
use std::time::Duration;

pub fn module() -> PropModule {
    PropModule { coq_module: "Check_C17", runner: "Check_C17.run_C17", generate, execute, label }
}

// ---------------------------------------------------------------- generator

/// abstract block of a generated note
#[derive(Clone)]
enum B {
    Head(usize, String),
    Para(String),
    Ref(String),             // target key (paragraph consisting of exactly one link)
    List(Vec<(String, Option<String>)>), // items: text, optional block reference inside the item
    Quote(String, Option<String>),       // quote text, optional block reference inside the quote
    Code(String),
}

struct ANote {
    key: String,
    blocks: Vec<B>,
}

fn refs_of(n: &ANote) -> Vec<String> {
    let mut out = vec![];
    for b in &n.blocks {
        match b {
            B::Ref(k) => out.push(k.clone()),
            B::List(items) => {
                for (_, r) in items {
                    if let Some(k) = r { out.push(k.clone()); }
                }
            }
            B::Quote(_, Some(k)) => out.push(k.clone()),
            _ => {}
        }
    }
    out
}

fn own_size(n: &ANote) -> usize {
    1 + n.blocks.iter().map(|b| match b {
        B::List(items) => 1 + 2 * items.len(),
        B::Quote(_, _) => 3,
        _ => 1,
    }).sum::<usize>()
}

/// estimate of the squashed size (nodes), by the obvious recursion on the abstract notes
fn est(notes: &[ANote], key: &str, depth: usize, cap: usize) -> usize {
    let n = match notes.iter().find(|n| n.key == key) { Some(n) => n, None => return 1 };
    let mut s = own_size(n);
    if depth > 0 {
        for r in refs_of(n) {
            if s > cap { return s; }
            s += est(notes, &r, depth - 1, cap);
        }
    }
    s
}

fn link(title: &str, target: &str, from: &str, wiki: bool) -> String {
    let url = rel_url(target, &dir_of(from));
    if wiki { format!("[[{}]]", url) } else { format!("[{}]({})", title, url) }
}

fn src(n: &ANote, wiki: bool) -> String {
    let mut parts: Vec<String> = vec![];
    for b in &n.blocks {
        parts.push(match b {
            B::Head(l, t) => format!("{} {}", "#".repeat(*l), t),
            B::Para(t) => t.clone(),
            B::Ref(k) => link(&format!("to {}", k), k, &n.key, wiki),
            B::List(items) => items
                .iter()
                .map(|(t, r)| match r {
                    Some(k) => format!("- {}\n\n  {}\n", t, link("in item", k, &n.key, false)),
                    None => format!("- {}", t),
                })
                .collect::<Vec<_>>()
                .join("\n"),
            B::Quote(t, r) => match r {
                Some(k) => format!("> {}\n>\n> {}", t, link("in quote", k, &n.key, false)),
                None => format!("> {}", t),
            },
            B::Code(t) => format!("```\n{}\n```", t),
        });
    }
    let mut s = parts.join("\n\n");
    if !s.is_empty() { s.push('\n'); }
    s
}

const SHAPES: &[&str] = &["tree", "dag", "cycle", "selfloop", "dangling", "random", "mixed"];

/// edges of the block-reference graph by shape: for note i the list of targets (indices;
/// usize::MAX = a key that does not exist)
fn edges(rng: &mut Rng, shape: &str, n: usize, max_refs: usize) -> Vec<Vec<usize>> {
    const MISSING: usize = usize::MAX;
    let mut e: Vec<Vec<usize>> = vec![vec![]; n];
    match shape {
        "tree" => {
            for i in 1..n { let p = (i - 1) / 2; e[p].push(i); }
        }
        "dag" => {
            for i in 0..n {
                let k = rng.range(0, max_refs);
                for _ in 0..k { if i + 1 < n { let t = rng.range(i + 1, n - 1); e[i].push(t); } }
            }
            // sharing: the last note is referenced by every other one that has room
            for i in 0..n.saturating_sub(1) { if e[i].len() < max_refs && !e[i].contains(&(n - 1)) { e[i].push(n - 1); } }
        }
        "cycle" => {
            for i in 0..n { e[i].push((i + 1) % n); }
            if n > 2 && rng.chance(1, 2) { let a = rng.below(n); let b = rng.below(n); e[a].push(b); }
        }
        "selfloop" => {
            for i in 0..n {
                if rng.chance(1, 2) || i == 0 { e[i].push(i); }
                if rng.chance(1, 2) && n > 1 { let t = rng.below(n); e[i].push(t); }
            }
        }
        "dangling" => {
            for i in 0..n {
                let k = rng.range(1, max_refs);
                for _ in 0..k { e[i].push(if rng.chance(1, 2) { MISSING } else { rng.below(n) }); }
            }
        }
        "chain" => {
            for i in 0..n.saturating_sub(1) { e[i].push(i + 1); }
            if rng.chance(1, 3) { e[n - 1].push(MISSING); }
        }
        "ring1" => {
            // every note has at most one reference: the expansion stays linear in the depth
            for i in 0..n { e[i].push(if rng.chance(1, 6) { i } else { (i + 1) % n }); }
        }
        "self1" => { e[0].push(0); }
        _ => {
            for i in 0..n {
                let k = rng.range(0, max_refs);
                for _ in 0..k { e[i].push(if rng.chance(1, 6) { MISSING } else { rng.below(n) }); }
            }
        }
    }
    for v in e.iter_mut() { v.truncate(max_refs.max(1)); }
    e
}

fn key_pool(rng: &mut Rng, n: usize, nested: bool) -> Vec<String> {
    let flat = ["n1", "n2", "n3", "n4", "n5", "n6", "n7"];
    let nest = ["n1", "d/n2", "n3", "d/e/n4", "d/n5", "e/n6", "n7"];
    let mut keys: Vec<String> = (0..n).map(|i| if nested { nest[i].to_string() } else { flat[i].to_string() }).collect();
    if rng.chance(1, 3) { keys.reverse(); } // the squashed key is not always the first in import order
    keys
}

/// one note: its references (edge list) are placed among headings, paragraphs, lists, quotes
/// so that references come first / in the middle / last, inside sections, items and quotes
fn note(rng: &mut Rng, idx: usize, key: &str, targets: &[String], rich: bool) -> ANote {
    let mut blocks: Vec<B> = vec![];
    let mut c = 0;
    let mut word = |what: &str| { c += 1; format!("{}{}x{}", what, idx + 1, c) };
    let mut pending: Vec<String> = targets.to_vec();
    // leading reference (first child of the document is a reference)
    if !pending.is_empty() && rng.chance(1, 5) { blocks.push(B::Ref(pending.remove(0))); }
    if rng.chance(4, 5) { blocks.push(B::Head(1, word("h"))); }
    let filler = rng.range(0, 3);
    let mut slots = filler + pending.len();
    let mut level = 1;
    while slots > 0 {
        let take_ref = !pending.is_empty() && (rng.chance(1, 2) || slots <= pending.len());
        if take_ref {
            let k = pending.remove(0);
            match if rich { rng.below(6) } else { 0 } {
                4 => blocks.push(B::List(vec![(word("i"), None), (word("i"), Some(k))])),
                5 => blocks.push(B::Quote(word("q"), Some(k))),
                _ => blocks.push(B::Ref(k)),
            }
        } else {
            match rng.below(if rich { 8 } else { 4 }) {
                0 | 1 => blocks.push(B::Para(word("p"))),
                2 => { level = if level >= 3 { 2 } else { level + rng.range(0, 1) }; blocks.push(B::Head(level.max(1), word("h"))); }
                3 => blocks.push(B::Para(format!("{} and {}", word("p"), word("w")))),
                4 => blocks.push(B::List(vec![(word("i"), None), (word("i"), None)])),
                5 => blocks.push(B::Quote(word("q"), None)),
                6 => blocks.push(B::Code(word("c"))),
                _ => blocks.push(B::Head(2, word("h"))),
            }
        }
        slots -= 1;
    }
    ANote { key: key.to_string(), blocks }
}

fn lib_json(notes: &[ANote], kind: &str, squash: Vec<(String, usize)>, wiki: bool) -> Value {
    json!({
        "ext": "",
        "kind": kind,
        "notes": notes.iter().map(|n| json!([n.key, src(n, wiki)])).collect::<Vec<_>>(),
        "squash": squash.iter().map(|(k, d)| json!([k, d])).collect::<Vec<_>>(),
    })
}

fn build_lib(rng: &mut Rng, shape: &str, n: usize, max_refs: usize, nested: bool, rich: bool) -> Vec<ANote> {
    let keys = key_pool(rng, n, nested);
    let e = edges(rng, shape, n, max_refs);
    (0..n)
        .map(|i| {
            let targets: Vec<String> = e[i].iter().map(|&t| if t == usize::MAX { "missing".to_string() } else { keys[t].clone() }).collect();
            note(rng, i, &keys[i], &targets, rich)
        })
        .collect()
}

// ---------------------------------------------------------------- hand-made trees

/// JSON form of a `Tree`: {"n": kind, "s": text / key / content, "t": reference text / language,
/// "w": reference type, "id": id, "c": children}
pub fn jnode(kind: &str, s: &str, c: Vec<Value>) -> Value {
    json!({"n": kind, "s": s, "c": c})
}

const CONTAINERS: &[&str] = &["sec", "sec", "sec", "quote", "bl", "ol"];
const LEAVES: &[&str] = &["leaf", "leaf", "raw", "rule", "ref", "ref", "table"];

struct TreeGen {
    /// chance (of 8) that a node which cannot have children gets some
    leaf_kids: usize,
    /// chance (of 8) that a position below the root holds a Document node
    inner_doc: usize,
    budget: usize,
    count: usize,
}

impl TreeGen {
    fn text(&mut self, rng: &mut Rng, what: &str) -> String {
        self.count += 1;
        match rng.below(6) {
            0 => String::new(),
            1 => format!("{}{}|em{}", what, self.count, self.count),
            2 => format!("{}{}|em|ln{}", what, self.count, self.count),
            _ => format!("{}{}", what, self.count),
        }
    }

    fn leaf(&mut self, rng: &mut Rng, kind: &str) -> Value {
        match kind {
            "raw" => {
                let mut v = jnode("raw", &format!("code{}\n  more", self.count), vec![]);
                if rng.chance(1, 2) { v["t"] = json!("rs"); }
                v
            }
            "rule" => jnode("rule", "", vec![]),
            "ref" => {
                let mut v = jnode("ref", *rng.pick(&["k", "d/k2", "missing", "t"]), vec![]);
                v["t"] = json!(*rng.pick(&["", "title", "other text"]));
                v["w"] = json!(rng.below(3));
                v
            }
            "table" => jnode("table", &self.text(rng, "cell"), vec![]),
            _ => { let t = self.text(rng, "p"); jnode("leaf", &t, vec![]) }
        }
    }

    fn forest(&mut self, rng: &mut Rng, depth: usize, max: usize) -> Vec<Value> {
        let n = rng.range(0, max);
        let mut out = vec![];
        for _ in 0..n {
            if self.budget == 0 { break; }
            out.push(self.tree(rng, depth));
        }
        out
    }

    fn tree(&mut self, rng: &mut Rng, depth: usize) -> Value {
        self.budget = self.budget.saturating_sub(1);
        let mut v = if rng.below(8) < self.inner_doc {
            let kids = if depth == 0 { vec![] } else { self.forest(rng, depth - 1, 3) };
            jnode("doc", *rng.pick(&["t", "inner", "d/x"]), kids)
        } else if depth > 0 && rng.chance(1, 2) {
            let kind = *rng.pick(CONTAINERS);
            let kids = self.forest(rng, depth - 1, 3);
            let t = if kind == "sec" { self.text(rng, "h") } else { String::new() };
            jnode(kind, &t, kids)
        } else {
            let kind = *rng.pick(LEAVES);
            let mut v = self.leaf(rng, kind);
            if depth > 0 && rng.below(8) < self.leaf_kids {
                v["c"] = json!(self.forest(rng, depth - 1, 2));
            }
            v
        };
        if rng.chance(1, 3) { v["id"] = json!(rng.below(50)); }
        v
    }
}

pub const TREE_MODES: &[&str] = &["valid", "leafkids", "innerdoc", "mixed", "rootless"];

pub fn gen_tree(rng: &mut Rng, mode: &str) -> Value {
    let (leaf_kids, inner_doc) = match mode {
        "leafkids" => (2, 0),
        "innerdoc" => (0, 1),
        "mixed" | "rootless" => (1, 1),
        _ => (0, 0),
    };
    let mut g = TreeGen { leaf_kids, inner_doc, budget: rng.range(1, 40), count: 0 };
    let depth = rng.range(1, 5);
    if mode == "rootless" {
        // the root is whatever comes: a section, a leaf, a list, a childless document
        match rng.below(4) {
            0 => jnode("doc", "t", vec![]),
            1 => { let kids = g.forest(rng, depth, 3); jnode(*rng.pick(CONTAINERS), "root", kids) }
            _ => g.tree(rng, depth),
        }
    } else {
        let kids = g.forest(rng, depth, 4);
        jnode("doc", *rng.pick(&["t", "other"]), kids)
    }
}

fn jinlines(s: &str) -> Vec<GraphInline> {
    if s.is_empty() {
        return vec![];
    }
    s.split('|')
        .enumerate()
        .map(|(i, p)| match i % 3 {
            0 => GraphInline::Str(p.to_string()),
            1 => GraphInline::Emph(vec![GraphInline::Str(p.to_string())]),
            _ => GraphInline::Link(format!("u/{}", p), String::new(), LinkType::Regular, vec![GraphInline::Str(p.to_string())]),
        })
        .collect()
}

pub fn jtree(v: &Value) -> Tree {
    let s = v["s"].as_str().unwrap_or("");
    let node = match v["n"].as_str().unwrap_or("leaf") {
        "doc" => Node::Document(Key::from_file_name(s)),
        "sec" => Node::Section(jinlines(s)),
        "quote" => Node::Quote(),
        "bl" => Node::BulletList(),
        "ol" => Node::OrderedList(),
        "raw" => Node::Raw(v["t"].as_str().map(|l| l.to_string()), s.to_string()),
        "rule" => Node::HorizontalRule(),
        "ref" => Node::Reference(Reference {
            key: Key::from_file_name(s),
            text: v["t"].as_str().unwrap_or("").to_string(),
            reference_type: match v["w"].as_u64().unwrap_or(0) {
                1 => ReferenceType::WikiLink,
                2 => ReferenceType::WikiLinkPiped,
                _ => ReferenceType::Regular,
            },
        }),
        "table" => Node::Table(Table {
            header: vec![jinlines("h1"), jinlines(s)],
            alignment: vec![ColumnAlignment::None, ColumnAlignment::Right],
            rows: vec![vec![jinlines(s), vec![]], vec![jinlines("x|y"), jinlines("z")]],
        }),
        _ => Node::Leaf(jinlines(s)),
    };
    Tree {
        id: v["id"].as_u64(),
        node,
        children: v["c"].as_array().map(|a| a.iter().map(jtree).collect()).unwrap_or_default(),
    }
}

pub fn generate(rng: &mut Rng, thorough: bool) -> Vec<Value> {
    let mut out = vec![];
    let n_lib = if thorough { 1400 } else { 84 };
    let cap = 700;
    for i in 0..n_lib {
        let shape = SHAPES[i % SHAPES.len()];
        let n = if shape == "selfloop" { rng.range(1, 3) } else { rng.range(2, 6) };
        let max_refs = rng.range(1, 3);
        let nested = i % 5 == 4;
        let rich = i % 3 != 0;
        let shape_used: &str = if shape == "mixed" { *rng.pick(&SHAPES[..6]) } else { shape };
        let notes = build_lib(rng, shape_used, n, max_refs, nested, rich);
        // squash one or two keys at every depth 0..6 whose estimated size stays printable
        let mut squash = vec![];
        let k0 = notes[0].key.clone();
        let k1 = notes[rng.below(notes.len())].key.clone();
        for d in 0..=6usize {
            if est(&notes, &k0, d, cap) <= cap { squash.push((k0.clone(), d)); }
        }
        if k1 != k0 {
            for d in [1usize, 2, 4] { if est(&notes, &k1, d, cap) <= cap { squash.push((k1.clone(), d)); } }
        }
        out.push(lib_json(&notes, &format!("{}{}", shape, if nested { "-nested" } else { "" }), squash, i % 11 == 10));
    }
    // depth up to 255 on graphs whose expansion stays linear: chains, rings with one reference
    // per note, a single self-loop
    let n_deep = if thorough { 60 } else { 9 };
    let mut deep = vec![];
    for i in 0..n_deep {
        let shape = ["chain", "self1", "ring1"][i % 3];
        let n = match shape { "self1" => 1, "chain" => rng.range(2, 7), _ => rng.range(1, 3) };
        let mut notes = build_lib(rng, shape, n, 1, false, false);
        // keep notes small: at most a heading, a paragraph and the reference
        for a in notes.iter_mut() {
            let mut kept: Vec<B> = vec![];
            let mut non_ref = 0;
            for b in a.blocks.drain(..) {
                match b { B::Ref(_) => kept.push(b), _ => { if non_ref < 2 { kept.push(b); non_ref += 1; } } }
            }
            a.blocks = kept;
        }
        let k0 = notes[0].key.clone();
        let depths: Vec<usize> = match i % 3 { 0 => vec![7, 255], 1 => vec![100, 255], _ => vec![6, 64, 255] };
        let squash = depths.into_iter().filter(|d| est(&notes, &k0, *d, 2000) <= 2000).map(|d| (k0.clone(), d)).collect();
        deep.push(lib_json(&notes, &format!("deep-{}", shape), squash, false));
    }
    // the deep cases are the expensive ones for coqc (terms nested 255 deep): spread them evenly
    // among the others, so that they do not all land in the same shard
    let step = (out.len() / deep.len().max(1)).max(1);
    let libs = std::mem::take(&mut out);
    let mut deep = deep.into_iter();
    for (i, l) in libs.into_iter().enumerate() {
        out.push(l);
        if (i + 1) % step == 0 {
            if let Some(d) = deep.next() { out.push(d); }
        }
    }
    out.extend(deep);
    // a note that squashes to nothing (empty note / only references to empty notes): CLI path
    out.push(json!({"ext": "", "kind": "empty", "notes": [["n1", "[to n2](n2)\n"], ["n2", ""]], "squash": [["n1", 0], ["n1", 1], ["n2", 0], ["n2", 3]]}));
    // hand-made trees for `build_key_from_iter` on a fresh graph (six per input)
    let n_tb = if thorough { 200 } else { 15 };
    for i in 0..n_tb {
        let mode = TREE_MODES[i % TREE_MODES.len()];
        let trees: Vec<Value> = (0..6).map(|j| json!([if j % 3 == 2 { "d/t" } else { "t" }, gen_tree(rng, mode)])).collect();
        out.push(json!({"ext": "", "kind": format!("trees-{}", mode), "notes": [["n1", "# n1\n\ntext\n"]], "squash": [], "trees": trees}));
    }
    out
}

pub fn label(v: &Value) -> String {
    let maxd = v["squash"].as_array().map(|a| a.iter().map(|p| p[1].as_u64().unwrap_or(0)).max().unwrap_or(0)).unwrap_or(0);
    let bucket = if maxd <= 2 { "d<=2" } else if maxd <= 6 { "d<=6" } else { "d>6" };
    format!("{}:notes={}:{}", v["kind"].as_str().unwrap_or("?"), v["notes"].as_array().map(|a| a.len()).unwrap_or(0), bucket)
}

// ---------------------------------------------------------------- execution

const RETURNED: u64 = 0;
const PANICKED: u64 = 1;
const TIMEDOUT: u64 = 2;
const ABORTED: u64 = 3;

/// run `f` in its own thread (main-thread sized stack) with a time limit
fn timed<T: Send + 'static>(f: impl FnOnce() -> T + Send + 'static, limit: Duration) -> (u64, Result<T, String>) {
    let (tx, rx) = mpsc::channel();
    let handle = std::thread::Builder::new().stack_size(8 << 20).spawn(move || {
        let r = catch_unwind(AssertUnwindSafe(f));
        let _ = tx.send(r.map_err(lib_stage::panic_msg));
    });
    if handle.is_err() {
        return (PANICKED, Err("thread spawn failed".into()));
    }
    match rx.recv_timeout(limit) {
        Ok(Ok(v)) => (RETURNED, Ok(v)),
        Ok(Err(e)) => (PANICKED, Err(e)),
        Err(_) => (TIMEDOUT, Err("timeout".into())), // the thread is left running: a hang is an observation
    }
}

/// a long string literal becomes a term nested as deep as it is long; print long texts in
/// pieces (`sconcat` of Ast.v) so that coqc's stack is not what limits the depth checked
fn gstr_long(s: &str) -> String {
    if s.len() <= 4000 {
        return gstr(s);
    }
    let mut parts = vec![];
    let mut cur = String::new();
    for ch in s.chars() {
        cur.push(ch);
        if cur.len() >= 3000 {
            parts.push(gstr(&cur));
            cur.clear();
        }
    }
    if !cur.is_empty() {
        parts.push(gstr(&cur));
    }
    format!("(sconcat {})", glist(&parts))
}

fn node_count(t: &Tree) -> usize {
    1 + t.children.iter().map(node_count).sum::<usize>()
}

/// Each case runs in a child process (this binary, `C17_CHILD=1`), so that an abort of the
/// code under test (stack overflow of an unbounded recursion, `abort()`) or a hang of the
/// whole case is an observation of that case (outcome 3) instead of the end of the run.
pub fn execute(v: &Value) -> String {
    if std::env::var("C17_CHILD").is_ok() {
        return execute_here(v);
    }
    static N: std::sync::atomic::AtomicUsize = std::sync::atomic::AtomicUsize::new(0);
    let n = N.fetch_add(1, std::sync::atomic::Ordering::SeqCst);
    let base = std::env::temp_dir().join(format!("iwe_verif_c17_{}_{}", std::process::id(), n));
    let _ = std::fs::create_dir_all(&base);
    let inp = base.join("in.jsonl");
    let mut term: Option<String> = None;
    if std::fs::write(&inp, format!("{}\n", v)).is_ok() {
        if let Ok(exe) = std::env::current_exe() {
            let child = std::process::Command::new(exe)
                .args(["C17", "--inputs", inp.to_str().unwrap(), "--out", base.join("out").to_str().unwrap(), "--shards", "1"])
                .env("C17_CHILD", "1")
                .stdout(std::process::Stdio::null())
                .stderr(std::process::Stdio::null())
                .spawn();
            if let Ok(mut ch) = child {
                let t0 = std::time::Instant::now();
                let status = loop {
                    match ch.try_wait() {
                        Ok(Some(st)) => break Some(st),
                        Ok(None) => {
                            if t0.elapsed() > Duration::from_secs(600) {
                                let _ = ch.kill();
                                let _ = ch.wait();
                                break None;
                            }
                            std::thread::sleep(Duration::from_millis(2));
                        }
                        Err(_) => break None,
                    }
                };
                if status.map(|s| s.success()).unwrap_or(false) {
                    if let Ok(text) = std::fs::read_to_string(base.join("out").join("cases_000.v")) {
                        if let (Some(a), Some(b)) = (text.find("(0%N, "), text.rfind("\n].")) {
                            let body = &text[a + 6..b];
                            term = body.strip_suffix(')').map(|x| x.to_string());
                        }
                    }
                }
            }
        }
    }
    let _ = std::fs::remove_dir_all(&base);
    match term {
        Some(t) => t,
        None => {
            // the child died: the library part is recomputed here, every squash is "aborted"
            let lc = lib_stage::execute(v);
            let obs: Vec<String> = v["squash"]
                .as_array()
                .cloned()
                .unwrap_or_default()
                .iter()
                .map(|p| {
                    let key = Key::from_file_name(p[0].as_str().unwrap());
                    let aborted = || "(Panic \"aborted\")".to_string();
                    gapp("SO", &[gstr(&key.to_string()), gn(p[1].as_u64().unwrap_or(0).min(255)), gn(ABORTED), aborted(), gn(ABORTED), aborted(), aborted(), aborted()])
                })
                .collect();
            let tbs: Vec<String> = v["trees"]
                .as_array()
                .cloned()
                .unwrap_or_default()
                .iter()
                .map(|p| {
                    let key = Key::from_file_name(p[0].as_str().unwrap_or("t"));
                    gapp("TB", &[gstr(&key.to_string()), dump::tree(&jtree(&p[1])), "(Panic \"aborted\")".into(), "(Panic \"aborted\")".into()])
                })
                .collect();
            gapp("Case", &[lc, glist(&obs), glist(&tbs)])
        }
    }
}

/// main.rs:171-180 with the arena in view: `Graph::new()`, `build_key_from_iter(key, TreeIter::new(tree))`
/// (a panic there is the caller's observation), then every slot of that graph, the tree
/// `collect`ed back from it and the exported text
fn cli_build(k: &Key, t: &Tree, print: bool) -> (Result<String, String>, Result<String, String>, Result<String, String>) {
    let mut patch = Graph::new();
    patch.build_key_from_iter(k, TreeIter::new(t));
    let arena = if print { Ok(dump::arena(&patch)) } else { Err("harness: arena not printed".to_string()) };
    let back = catch_unwind(AssertUnwindSafe(|| (&patch).collect(k))).map_err(lib_stage::panic_msg);
    let back = match back {
        Ok(b) if print => Ok(dump::tree(&b)),
        Ok(_) => Err("harness: tree not printed".to_string()),
        Err(e) => Err(e),
    };
    let text = catch_unwind(AssertUnwindSafe(|| patch.export_key(k).unwrap())).map_err(lib_stage::panic_msg);
    (arena, back, text)
}

fn execute_here(v: &Value) -> String {
    let lc = lib_stage::execute(v);
    let notes = lib_stage::notes_of(v);
    let options = MarkdownOptions { refs_extension: v["ext"].as_str().unwrap_or("").to_string() };
    let state = lib_stage::state_of(&notes);
    let imported = catch_unwind(AssertUnwindSafe(|| Graph::import(&state, options)));
    let limit = Duration::from_secs(20);

    let mut obs = vec![];
    if let Ok(graph) = imported {
        for p in v["squash"].as_array().cloned().unwrap_or_default() {
            let key_s = p[0].as_str().unwrap().to_string();
            let depth = p[1].as_u64().unwrap_or(0).min(255) as u8;
            let key = Key::from_file_name(&key_s);
            // Graph::squash
            let g = graph.clone();
            let k = key.clone();
            let (oc, tree) = timed(move || (&g).squash(&k, depth), limit);
            // CLI path on the tree (main.rs:171-180)
            let (coc, built) = match &tree {
                Ok(t) => {
                    let t = t.clone();
                    let k: Key = key_s.clone().into();
                    let print = node_count(&t) <= 20000;
                    timed(move || cli_build(&k, &t, print), limit)
                }
                Err(_) => (PANICKED, Err("no tree".to_string())),
            };
            let (coc, arena, back, text) = match built {
                Ok((a, b, x)) => (if x.is_err() { PANICKED } else { coc }, a, b, x),
                Err(e) => (coc, Err(e.clone()), Err(e.clone()), Err(e)),
            };
            let tree_term = match &tree {
                Ok(t) if node_count(t) > 20000 => Err(format!("harness: tree of {} nodes not printed", node_count(t))),
                Ok(t) => Ok(dump::tree(t)),
                Err(e) => Err(e.clone()),
            };
            obs.push(gapp(
                "SO",
                &[
                    gstr(&key.to_string()),
                    gn(depth as u64),
                    gn(oc),
                    lib_stage::gres(tree_term),
                    gn(coc),
                    lib_stage::gres(text.map(|t| gstr_long(&t))),
                    lib_stage::gres(arena),
                    lib_stage::gres(back),
                ],
            ));
        }
    }
    // hand-made trees through the same call
    let mut tbs = vec![];
    for p in v["trees"].as_array().cloned().unwrap_or_default() {
        let k: Key = p[0].as_str().unwrap_or("t").to_string().into();
        let t = jtree(&p[1]);
        let tree_term = dump::tree(&t);
        let k2 = k.clone();
        let (_, built) = timed(move || cli_build(&k2, &t, true), limit);
        let (arena, back) = match built {
            Ok((a, b, _)) => (a, b),
            Err(e) => (Err(e.clone()), Err(e)),
        };
        tbs.push(gapp("TB", &[gstr(&k.to_string()), tree_term, lib_stage::gres(arena), lib_stage::gres(back)]));
    }
    gapp("Case", &[lc, glist(&obs), glist(&tbs)])
}
