//! C14 — a file on disk, its `file://` URI and its note key name the same note.
//!
//! Every case writes a small library to a scratch directory (under the `--out` directory of
//! this run, removed afterwards), loads it with the real loader `liwe::fs::new_for_path`,
//! builds the real `iwes::router::server::Server` on it and observes, through the server's
//! public request handlers only (no hook):
//!   * `Url::from_file_path(<base>/<rel>.md)`            — the URI an editor sends;
//!   * the key under which the loader holds that file     — by the file's unique content;
//!   * `BasePath::url_to_key(uri)`                        — `target_key` of the completion command;
//!   * `BasePath::key_to_url(key)`                        — `location.uri` of the workspace symbol;
//!   * `Url::to_file_path` of that URI                    — the file the editor would open;
//!   * the server's key set before / after `didChange` for the first note's URI.
use crate::gal::*;
use crate::rng::Rng;
use crate::PropModule;
use iwes::router::server::Server;
use iwes::router::{LspClient, ServerConfig};
use liwe::model::config::Configuration;
use lsp_types::*;
use serde_json::{json, Value};
use std::panic::{catch_unwind, AssertUnwindSafe};
use std::path::PathBuf;
use std::sync::atomic::{AtomicUsize, Ordering};

pub fn module() -> PropModule {
    // `Check_C14.run` evaluates the variant named by `Check_C14.tree_variant`; for trying the
    // repair patch without editing the development: VERIF_C14_VARIANT=fixed
    // VERIF_C14_DEF=fixed: the same for go-to-definition after fix-c14-definition-uri.patch (`Check_C14.def_variant`)
    let runner = if std::env::var("VERIF_C14_VARIANT").map(|v| v == "fixed").unwrap_or(false) {
        "Check_C14.run_fixed"
    } else if std::env::var("VERIF_C14_DEF").map(|v| v == "fixed").unwrap_or(false) {
        "Check_C14.run_def_fixed"
    } else {
        "Check_C14.run"
    };
    PropModule { coq_module: "Check_C14", runner, generate, execute, label }
}

static COUNTER: AtomicUsize = AtomicUsize::new(0);

/// scratch root: `<--out>/scratch` (the harness owns and removes it)
fn scratch_root() -> PathBuf {
    let args: Vec<String> = std::env::args().collect();
    let mut out = PathBuf::from("_work");
    for i in 0..args.len() {
        if args[i] == "--out" && i + 1 < args.len() {
            out = PathBuf::from(&args[i + 1]);
        }
    }
    let out = if out.is_absolute() { out } else { std::env::current_dir().unwrap().join(out) };
    out.join("scratch")
}

fn comps(v: &Value) -> Vec<String> {
    v.as_array().map(|a| a.iter().map(|s| s.as_str().unwrap_or("").to_string()).collect()).unwrap_or_default()
}

/// a component usable as a Linux file / directory name given as a JSON string
fn legal_component(s: &str) -> bool {
    !s.is_empty() && s != "." && s != ".." && !s.contains('/') && !s.contains('\0') && s.len() <= 200
}

fn completion_params(uri: &Url) -> CompletionParams {
    CompletionParams {
        text_document_position: TextDocumentPositionParams {
            text_document: TextDocumentIdentifier { uri: uri.clone() },
            position: Position::new(0, 0),
        },
        work_done_progress_params: Default::default(),
        partial_result_params: Default::default(),
        context: None,
    }
}

/// (url_to_key(uri), [(key, title)]) as the completion handler reports them
fn completion_view(server: &Server, uri: &Url) -> Option<(Option<String>, Vec<(String, String)>)> {
    let r = catch_unwind(AssertUnwindSafe(|| server.handle_completion(completion_params(uri)))).ok()?;
    let items = match r {
        CompletionResponse::List(l) => l.items,
        CompletionResponse::Array(a) => a,
    };
    let mut target = None;
    let mut keys = vec![];
    for it in items {
        if let Some(cmd) = it.command {
            if let Some(args) = cmd.arguments {
                if let Some(a) = args.first() {
                    if let Some(t) = a.get("target_key").and_then(|x| x.as_str()) {
                        target = Some(t.to_string());
                    }
                    if let Some(k) = a.get("prompt_key").and_then(|x| x.as_str()) {
                        let title = it.label.strip_prefix("🤖 ").unwrap_or(&it.label).to_string();
                        keys.push((k.to_string(), title));
                    }
                }
            }
        }
    }
    keys.sort();
    Some((target, keys))
}

fn symbol_uris(server: &Server) -> Option<Vec<(String, Url)>> {
    let r = catch_unwind(AssertUnwindSafe(|| {
        server.handle_workspace_symbols(WorkspaceSymbolParams {
            query: String::new(),
            work_done_progress_params: Default::default(),
            partial_result_params: Default::default(),
        })
    }))
    .ok()?;
    match r {
        WorkspaceSymbolResponse::Flat(v) => Some(v.into_iter().map(|s| (s.name, s.location.uri)).collect()),
        WorkspaceSymbolResponse::Nested(_) => Some(vec![]),
    }
}

/// a path as a Coq string, byte-exact also when it is not UTF-8
fn gbytes(b: &[u8]) -> String {
    match std::str::from_utf8(b) {
        Ok(s) => gstr(s),
        Err(_) => format!("(sb [{}]%N)", b.iter().map(|x| x.to_string()).collect::<Vec<_>>().join(";")),
    }
}

fn gkv(kv: &[(String, String)]) -> String {
    glist(&kv.iter().map(|(k, t)| gpair(&gstr(k), &gstr(t))).collect::<Vec<_>>())
}

/// the destination of a Markdown link that the parser reads back as exactly `url`: as it is when it
/// is made of unreserved characters, else in angle brackets with `\`, `<`, `>`, `&` escaped
fn md_destination(url: &str) -> String {
    if !url.is_empty() && url.bytes().all(|b| b.is_ascii_alphanumeric() || matches!(b, b'-' | b'.' | b'_' | b'~' | b'/' | b':' | b'@')) {
        return url.to_string();
    }
    let mut out = String::from("<");
    for c in url.chars() {
        if matches!(c, '\\' | '<' | '>' | '&') {
            out.push('\\');
        }
        out.push(c);
    }
    out.push('>');
    out
}

/// the text of a note file of a link case: a title, then one paragraph per link (on line 2 + 2*j)
fn links_note_text(i: usize, links: &[(usize, String, bool)], edited: bool) -> String {
    let mut text = format!("# T{}\n", i);
    for (j, (_, url, inline)) in links.iter().filter(|(from, _, _)| *from == i).enumerate() {
        if *inline {
            text.push_str(&format!("\nsee [L{}]({}) here\n", j, md_destination(url)));
        } else {
            text.push_str(&format!("\n[L{}]({})\n", j, md_destination(url)));
        }
    }
    if edited {
        text.push_str("\nedited\n");
    }
    text
}

fn def_obs(server: &Server, uri: &Url, line: u32, character: u32) -> String {
    let r = catch_unwind(AssertUnwindSafe(|| {
        server.handle_goto_definition(GotoDefinitionParams {
            text_document_position_params: TextDocumentPositionParams {
                text_document: TextDocumentIdentifier { uri: uri.clone() },
                position: Position::new(line, character),
            },
            work_done_progress_params: Default::default(),
            partial_result_params: Default::default(),
        })
    }));
    match r {
        Err(_) => "Check_C14.DPanic".to_string(),
        Ok(GotoDefinitionResponse::Scalar(l)) => gapp("Check_C14.DSome", &[gstr(&l.uri.to_string())]),
        Ok(GotoDefinitionResponse::Array(a)) => match a.first() {
            Some(l) => gapp("Check_C14.DSome", &[gstr(&l.uri.to_string())]),
            None => "Check_C14.DNone".to_string(),
        },
        Ok(GotoDefinitionResponse::Link(a)) => match a.first() {
            Some(l) => gapp("Check_C14.DSome", &[gstr(&l.target_uri.to_string())]),
            None => "Check_C14.DNone".to_string(),
        },
    }
}

fn refs_obs(server: &Server, uri: &Url) -> String {
    let r = catch_unwind(AssertUnwindSafe(|| {
        server.handle_references(ReferenceParams {
            text_document_position: TextDocumentPositionParams { text_document: TextDocumentIdentifier { uri: uri.clone() }, position: Position::new(0, 0) },
            work_done_progress_params: Default::default(),
            partial_result_params: Default::default(),
            context: ReferenceContext { include_declaration: false },
        })
    }));
    gopt(r.ok().map(|ls| glist(&ls.iter().map(|l| gstr(&l.uri.to_string())).collect::<Vec<_>>())))
}

/// link cases (`"links"` in the input): a library of note files that link to each other, written
/// to disk, loaded by the server itself (`state` comes from the real loader on the same path),
/// then `textDocument/definition` on every link and `textDocument/references` of every file's
/// URI, before and after a didChange for every file
fn execute_links(v: &Value) -> String {
    let base_name = v["base"].as_str().unwrap_or("lib");
    let slash = v["slash"].as_bool().unwrap_or(false);
    let files: Vec<Vec<String>> = v["files"].as_array().map(|a| a.iter().map(comps).collect()).unwrap_or_default();
    let links: Vec<(usize, String, bool)> = v["links"]
        .as_array()
        .map(|a| {
            a.iter()
                .map(|l| (l["from"].as_u64().unwrap_or(0) as usize, l["url"].as_str().unwrap_or("").to_string(), l["inline"].as_bool().unwrap_or(false)))
                .collect()
        })
        .unwrap_or_default();
    let base_ok = !base_name.is_empty() && base_name.split('/').all(legal_component);
    let files_ok = !files.is_empty() && files.iter().all(|n| !n.is_empty() && n.iter().all(|c| legal_component(c)));
    // a url the Markdown destination cannot carry (line break) or that does not name a linking file
    let links_ok = links.iter().all(|(from, url, _)| *from < files.len() && !url.is_empty() && !url.contains('\n') && !url.contains('\r') && !url.contains('\0'));
    let id = COUNTER.fetch_add(1, Ordering::SeqCst);
    let root = scratch_root().join(format!("{}", id));
    if !(base_ok && files_ok && links_ok) {
        return gapp("Check_C14.Skip", &[]);
    }
    let base_dir = root.join(base_name);
    let mut base_str = base_dir.to_string_lossy().to_string();
    if slash {
        base_str.push('/');
    }
    let _ = std::fs::remove_dir_all(&root);
    let path_of = |n: &Vec<String>, from: &str| {
        let mut p = PathBuf::from(from);
        for d in &n[..n.len() - 1] {
            p.push(d);
        }
        p.push(format!("{}.md", n[n.len() - 1]));
        p
    };
    let mut all_written = true;
    for (i, n) in files.iter().enumerate() {
        let p = path_of(n, &base_dir.to_string_lossy());
        let ok = p.parent().map(|d| std::fs::create_dir_all(d).is_ok()).unwrap_or(false) && !p.exists() && std::fs::write(&p, links_note_text(i, &links, false)).is_ok();
        all_written &= ok;
    }
    if !all_written {
        let _ = std::fs::remove_dir_all(&root);
        return gapp("Check_C14.Skip", &[]);
    }
    let state = catch_unwind(AssertUnwindSafe(|| liwe::fs::new_for_path(&PathBuf::from(&base_str))));
    let (loaded, state) = match state {
        Ok(s) => {
            let mut k: Vec<String> = s.keys().cloned().collect();
            k.sort();
            (Some(k), s)
        }
        Err(_) => (None, Default::default()),
    };
    let server = catch_unwind(AssertUnwindSafe(|| {
        Server::new(ServerConfig { base_path: base_str.clone(), state, sequential_ids: Some(true), configuration: Configuration::default(), lsp_client: LspClient::Unknown })
    }));
    let mut server = match server {
        Ok(s) => s,
        Err(_) => {
            let _ = std::fs::remove_dir_all(&root);
            return gapp("Check_C14.Crash", &[gstr(&base_str)]);
        }
    };
    let uris: Vec<Option<Url>> = files.iter().map(|n| Url::from_file_path(path_of(n, &base_str)).ok()).collect();
    // line and column of every link in its file
    let mut seen = vec![0u32; files.len()];
    let places: Vec<(u32, u32)> = links
        .iter()
        .map(|(from, _, inline)| {
            let j = seen[*from];
            seen[*from] += 1;
            (2 + 2 * j, if *inline { 5 } else { 1 })
        })
        .collect();
    let ask_defs = |server: &Server| -> Vec<String> {
        links
            .iter()
            .zip(places.iter())
            .map(|((from, _, _), (line, col))| match &uris[*from] {
                Some(u) => def_obs(server, u, *line, *col),
                None => "Check_C14.DNone".to_string(),
            })
            .collect()
    };
    let ask_refs = |server: &Server| -> Vec<String> { uris.iter().map(|u| match u { Some(u) => refs_obs(server, u), None => "None".to_string() }).collect() };
    let defs1 = ask_defs(&server);
    let refs1 = ask_refs(&server);
    for (i, u) in uris.iter().enumerate() {
        if let Some(u) = u {
            let text = links_note_text(i, &links, true);
            let _ = catch_unwind(AssertUnwindSafe(|| {
                server.handle_did_change_text_document(DidChangeTextDocumentParams {
                    text_document: VersionedTextDocumentIdentifier { uri: u.clone(), version: 1 },
                    content_changes: vec![TextDocumentContentChangeEvent { range: None, range_length: None, text }],
                })
            }));
        }
    }
    let defs2 = ask_defs(&server);
    let refs2 = ask_refs(&server);
    let _ = std::fs::remove_dir_all(&root);
    let file_terms: Vec<String> = files
        .iter()
        .enumerate()
        .map(|(i, n)| {
            gapp(
                "Check_C14.LFile",
                &[glist(&n.iter().map(|c| gstr(c)).collect::<Vec<_>>()), gopt(uris[i].as_ref().map(|u| gstr(&u.to_string()))), refs1[i].clone(), refs2[i].clone()],
            )
        })
        .collect();
    let link_terms: Vec<String> = links
        .iter()
        .enumerate()
        .map(|(j, (from, url, inline))| gapp("Check_C14.Link", &[format!("{}%nat", from), gstr(url), gbool(*inline), defs1[j].clone(), defs2[j].clone()]))
        .collect();
    gapp("Check_C14.Links", &[gstr(&base_str), glist(&file_terms), glist(&link_terms), gopt(loaded.map(|k| glist(&k.iter().map(|k| gstr(k)).collect::<Vec<_>>())))])
}

pub fn execute(v: &Value) -> String {
    if v.get("links").is_some() {
        return execute_links(v);
    }
    let base_name = v["base"].as_str().unwrap_or("lib");
    let slash = v["slash"].as_bool().unwrap_or(false);
    let notes: Vec<Vec<String>> = v["notes"].as_array().map(|a| a.iter().map(comps).collect()).unwrap_or_default();
    let extra: Vec<String> = comps(&v["extra"]);

    let base_ok = !base_name.is_empty() && base_name.split('/').all(legal_component);
    let notes_ok = !notes.is_empty() && notes.iter().all(|n| !n.is_empty() && n.iter().all(|c| legal_component(c)));
    let id = COUNTER.fetch_add(1, Ordering::SeqCst);
    let root = scratch_root().join(format!("{}", id));
    if !(base_ok && notes_ok) {
        return gapp("Check_C14.Skip", &[]);
    }
    let base_dir = root.join(base_name);
    // what the server is given: the library path as text, optionally with a trailing slash
    let mut base_str = base_dir.to_string_lossy().to_string();
    if slash {
        base_str.push('/');
    }
    let _ = std::fs::remove_dir_all(&root);
    // write the library; files whose path collides with a directory (or vice versa) are skipped
    let mut written: Vec<bool> = vec![];
    for (i, n) in notes.iter().enumerate() {
        let mut p = base_dir.clone();
        for d in &n[..n.len() - 1] {
            p.push(d);
        }
        let ok = std::fs::create_dir_all(&p).is_ok() && {
            p.push(format!("{}.md", n[n.len() - 1]));
            !p.exists() && std::fs::write(&p, format!("# T{}\n", i)).is_ok()
        };
        written.push(ok);
    }
    if !written.iter().all(|w| *w) {
        let _ = std::fs::remove_dir_all(&root);
        return gapp("Check_C14.Skip", &[]);
    }

    // the real loader, on the path text the server would use
    let state = catch_unwind(AssertUnwindSafe(|| liwe::fs::new_for_path(&PathBuf::from(&base_str))));
    let (loaded, state) = match state {
        Ok(s) => {
            let mut kv: Vec<(String, String)> = s.iter().map(|(k, c)| (k.clone(), c.clone())).collect();
            kv.sort();
            (Some(kv), s)
        }
        Err(_) => (None, Default::default()),
    };
    let mut configuration = Configuration::default();
    configuration.prompt_key_prefix = Some(String::new()); // every note is listed by the `+` completion
    let server = catch_unwind(AssertUnwindSafe(|| {
        Server::new(ServerConfig {
            base_path: base_str.clone(),
            state,
            sequential_ids: Some(true),
            configuration,
            lsp_client: LspClient::Unknown,
        })
    }));
    let mut server = match server {
        Ok(s) => s,
        Err(_) => {
            let _ = std::fs::remove_dir_all(&root);
            return gapp("Check_C14.Crash", &[gstr(&base_str)]);
        }
    };

    let symbols = symbol_uris(&server);
    let mut note_terms = vec![];
    let mut first_uri: Option<Url> = None;
    for (i, n) in notes.iter().enumerate() {
        let mut p = PathBuf::from(&base_str);
        for d in &n[..n.len() - 1] {
            p.push(d);
        }
        p.push(format!("{}.md", n[n.len() - 1]));
        let uri = Url::from_file_path(&p).ok();
        if i == 0 {
            first_uri = uri.clone();
        }
        let content = format!("# T{}\n", i);
        let disk = loaded.as_ref().and_then(|kv| kv.iter().find(|(_, c)| *c == content).map(|(k, _)| k.clone()));
        let url_key = uri.as_ref().and_then(|u| completion_view(&server, u)).and_then(|(t, _)| t);
        let title = format!("T{}", i);
        let key_url = symbols.as_ref().and_then(|s| s.iter().find(|(name, _)| *name == title).map(|(_, u)| u.clone()));
        let open = key_url.as_ref().and_then(|u| u.to_file_path().ok()).map(|p| {
            use std::os::unix::ffi::OsStrExt;
            gbytes(p.as_os_str().as_bytes())
        });
        note_terms.push(gapp(
            "Check_C14.Note",
            &[
                glist(&n.iter().map(|c| gstr(c)).collect::<Vec<_>>()),
                gopt(uri.as_ref().map(|u| gstr(&u.to_string()))),
                gopt(disk.map(|k| gstr(&k))),
                gopt(url_key.map(|k| gstr(&k))),
                gopt(key_url.map(|u| gstr(&u.to_string()))),
                gopt(open),
            ],
        ));
    }
    // client URIs that are not produced by from_file_path: templates over the server's prefix
    let mut extra_terms = vec![];
    let prefix = format!("file://{}/", base_str);
    for e in &extra {
        let text = e.replace("{S}", &prefix).replace("{P}", &base_str);
        if let Ok(u) = Url::parse(&text) {
            let k = first_uri.as_ref().and(completion_view(&server, &u)).and_then(|(t, _)| t);
            extra_terms.push(gpair(&gstr(&u.to_string()), &gopt(k.map(|k| gstr(&k)))));
        }
    }
    let before = first_uri.as_ref().and_then(|u| completion_view(&server, u)).map(|(_, k)| k);
    // the edit notification for the first note's URI
    let edited = first_uri.as_ref().map(|u| {
        catch_unwind(AssertUnwindSafe(|| {
            server.handle_did_change_text_document(DidChangeTextDocumentParams {
                text_document: VersionedTextDocumentIdentifier { uri: u.clone(), version: 1 },
                content_changes: vec![TextDocumentContentChangeEvent { range: None, range_length: None, text: "# E\n".to_string() }],
            })
        }))
        .is_ok()
    });
    let after = first_uri.as_ref().and_then(|u| completion_view(&server, u)).map(|(_, k)| k);
    let _ = std::fs::remove_dir_all(&root);
    if id % 64 == 0 {
        // keep the scratch root itself tidy
        let _ = std::fs::remove_dir(scratch_root());
    }
    gapp(
        "Check_C14.Case",
        &[
            gstr(&base_str),
            glist(&note_terms),
            gopt(loaded.map(|kv| glist(&kv.iter().map(|(k, _)| gstr(k)).collect::<Vec<_>>()))),
            gopt(before.map(|k| gkv(&k))),
            gbool(edited.unwrap_or(false)),
            gopt(after.map(|k| gkv(&k))),
            glist(&extra_terms),
        ],
    )
}

pub fn label(v: &Value) -> String {
    format!("{}{}", v["kind"].as_str().unwrap_or("?"), if v["slash"].as_bool().unwrap_or(false) { ":slash" } else { "" })
}

const BASES: &[&str] = &["lib", "my lib", "l%20b", "lïb", "a#b", "q?x", "lib/sub dir", "li.b", "b{1}"];

fn one(base: &str, slash: bool, notes: Vec<Vec<String>>, kind: &str) -> Value {
    json!({"base": base, "slash": slash, "notes": notes, "kind": kind})
}

const SAMPLES: &[&str] = &[
    "a", "note", "x.y", "a b", "é", "日本", "😀", "100%", "a%20b", "%41", "q?x", "a#b", "x.md", "a\\b", "a:b", "C|", "file:x", " lead", "trail ", "a\tb",
    "~", "a+b", "(x)", "[x]", "a&b=c", "it's", "\"q\"", "<t>", "a`b", "{x}", "a|b", "a^b", "%2e", "%", "%zz", "a;b", "a,b", "a@b", "$x", "!", "*", "-", "_",
    "file:", "http:", "a.md.md", "\u{7f}", "\u{1}", "x\ny",
];

pub fn generate(rng: &mut Rng, thorough: bool) -> Vec<Value> {
    let mut out = vec![];
    // exhaustive one-segment sweep: every byte 0x01..0x7f except '/', as the whole stem, as a
    // prefix, in the middle and as a suffix of the stem, and as a directory name
    for b in 1u8..=0x7f {
        if b == b'/' {
            continue;
        }
        let c = (b as char).to_string();
        for stem in [c.clone(), format!("{}z", c), format!("a{}z", c), format!("a{}", c)] {
            if legal_component(&stem) {
                out.push(one("lib", false, vec![vec![stem]], "sweep-stem"));
            }
        }
        if legal_component(&c) {
            out.push(one("lib", false, vec![vec![c.clone(), "n".to_string()]], "sweep-dir"));
            let b2 = format!("b{}c", c);
            out.push(one(&b2, false, vec![vec!["n".to_string()]], "sweep-base"));
        }
    }
    // multi-byte and structured samples, against every base path shape
    for s in SAMPLES {
        for base in BASES {
            for slash in [false, true] {
                if *base != "lib" && rng.chance(2, 3) {
                    continue;
                }
                out.push(one(base, slash, vec![vec![s.to_string()]], "sample"));
            }
        }
        out.push(one("lib", false, vec![vec![s.to_string(), "n".to_string()]], "sample-dir"));
    }
    // random multi-segment names, several notes per library
    let n = if thorough { 6000 } else { 400 };
    for i in 0..n {
        let hostile = i % 3 == 2;
        let pool: &[&str] = if hostile { SAMPLES } else { &SAMPLES[..7] };
        let base = if rng.chance(1, 2) { "lib" } else { *rng.pick(BASES) };
        let k = rng.range(1, 3);
        let mut notes = vec![];
        for _ in 0..k {
            let depth = rng.range(0, 3);
            let mut n: Vec<String> = vec![];
            for _ in 0..=depth {
                let mut seg = rng.pick(pool).to_string();
                if rng.chance(1, 4) {
                    seg.push_str(*rng.pick(pool));
                }
                n.push(seg);
            }
            notes.push(n);
        }
        let mut v = one(base, rng.chance(1, 5), notes.clone(), if hostile { "random-hostile" } else { "random" });
        if rng.chance(1, 2) {
            // other spellings of the first note's URI, as other clients send them
            let rel = notes[0].join("/");
            let mut extra = vec![format!("{{S}}{}.md", strict_encode(&rel))];
            if rng.chance(1, 3) { extra.push(format!("FILE://localhost{{P}}/{}.md", strict_encode(&rel))); }
            if rng.chance(1, 3) { extra.push(format!("{{S}}zz/../{}.md", strict_encode(&rel))); }
            if rng.chance(1, 6) { extra.push(format!("{{S}}{{S}}{}.md", strict_encode(&rel))); }
            if rng.chance(1, 6) { extra.push(format!("{{S}}{}.md", rel)); }
            v["extra"] = json!(extra);
            v["kind"] = json!(format!("{}+uris", v["kind"].as_str().unwrap()));
        }
        out.push(v);
    }
    for s in SAMPLES {
        out.push(json!({"base": "lib", "slash": false, "notes": [[s]], "extra": [format!("{{S}}{}.md", strict_encode(s))], "kind": "sample+uris"}));
    }
    // libraries of notes at depth 0..3 that link to each other
    let n = if thorough { 5000 } else { 420 };
    for i in 0..n {
        out.push(gen_links(rng, i % 4 == 3, i % 5 == 4));
    }
    out
}

/// the url that names the file `to` from the directory of the file `from` (both dirs ++ [stem])
fn rel_url(from: &[String], to: &[String]) -> String {
    let fd = &from[..from.len() - 1];
    let mut common = 0;
    while common < fd.len() && common + 1 < to.len() && fd[common] == to[common] {
        common += 1;
    }
    let mut parts: Vec<String> = vec![];
    for _ in common..fd.len() {
        parts.push("..".to_string());
    }
    parts.extend(to[common..].iter().cloned());
    parts.join("/")
}

/// a link case: 3-7 note files in a chain of directories up to 3 deep (the same few stems in
/// several directories, so that a link resolved against the wrong directory finds another note or
/// none), 2-9 links: to a file (the shortest url, `./`, `.md`, the long way round through the
/// parent directory), to nothing (missing sibling, out of the library), to the outside (http, mailto)
fn gen_links(rng: &mut Rng, hostile: bool, with_inline: bool) -> Value {
    let usable = |s: &&str| !s.contains('\n');
    let pool: Vec<&str> = if hostile { SAMPLES.iter().cloned().filter(|s| usable(&s)).collect() } else { SAMPLES[..7].to_vec() };
    let seg = |rng: &mut Rng| rng.pick(&pool).to_string();
    // directories: a chain root / d1 / d1/d2 / d1/d2/d3 and a side branch
    let d1 = seg(rng);
    let d2 = seg(rng);
    let d3 = seg(rng);
    let e = seg(rng);
    let mut dirs: Vec<Vec<String>> = vec![vec![], vec![d1.clone()], vec![d1.clone(), d2.clone()], vec![d1.clone(), d2.clone(), d3.clone()]];
    if e != d2 {
        dirs.push(vec![d1.clone(), e.clone()]);
    }
    let stems: Vec<String> = (0..3).map(|_| seg(rng)).collect();
    let mut files: Vec<Vec<String>> = vec![];
    let k = rng.range(3, 7);
    for j in 0..k {
        // the first two files are at least two directories deep
        let d = if j < 2 { rng.pick(&dirs[2..]).clone() } else { rng.pick(&dirs).clone() };
        let mut f = d;
        f.push(rng.pick(&stems).clone());
        // no file twice; no file named like a directory of the chain + `.md` is fine (a/b.md next to a/b/)
        if !files.contains(&f) {
            files.push(f);
        }
    }
    let nl = rng.range(2, 9);
    let mut links = vec![];
    for _ in 0..nl {
        let from = if rng.chance(2, 3) { rng.below(files.len().min(2)) } else { rng.below(files.len()) };
        let inline = with_inline && rng.chance(1, 2);
        let roll = rng.below(10);
        let url = if roll < 7 {
            let to = rng.pick(&files).clone();
            let mut u = rel_url(&files[from], &to);
            let up = u.starts_with("../");
            match rng.below(6) {
                0 if !up => u = format!("./{}", u),
                1 if files[from].len() > 1 && !up => u = format!("../{}/{}", files[from][files[from].len() - 2], u),
                2 => u.push_str(".md"),
                _ => {}
            }
            // a stem that ends in `.md` needs the extension spelled out (one `.md` is taken off a url)
            if to[to.len() - 1].ends_with(".md") && !u.ends_with(".md.md") {
                u.push_str(".md");
            }
            u
        } else if roll == 7 {
            // the same stem in the wrong directory, a missing note, a way out of the library
            match rng.below(3) {
                0 => format!("../{}", rng.pick(&stems)),
                1 => "nope".to_string(),
                _ => "../../../../up".to_string(),
            }
        } else if roll == 8 {
            rng.pick(&stems).clone()
        } else {
            rng.pick(&["https://example.com/a", "http://x.y/z.md", "mailto:a@b.c", "HTTPS://EXAMPLE.COM"]).to_string()
        };
        links.push(json!({"from": from, "url": url, "inline": inline}));
    }
    let base = if hostile && rng.chance(1, 3) { *rng.pick(BASES) } else { "lib" };
    let kind = format!("links{}{}", if hostile { "-hostile" } else { "" }, if with_inline { "+inline" } else { "" });
    json!({"base": base, "slash": hostile && rng.chance(1, 8), "files": files, "links": links, "kind": kind})
}

/// how VS Code spells a path in a URI: everything but unreserved characters and `/` is escaped
fn strict_encode(s: &str) -> String {
    let mut out = String::new();
    for b in s.bytes() {
        if b.is_ascii_alphanumeric() || matches!(b, b'-' | b'.' | b'_' | b'~' | b'/') {
            out.push(b as char);
        } else {
            out.push_str(&format!("%{:02X}", b));
        }
    }
    out
}
