//! Structural generators: block trees -> Markdown source in several styles, libraries of notes.
use crate::rng::Rng;

#[derive(Clone, Debug)]
pub enum GI {
    Word(String),
    Emph(Vec<GI>),
    Strong(Vec<GI>),
    Strike(Vec<GI>),
    CodeSpan(String),
    Link(Vec<GI>, String),
    LinkTitled(Vec<GI>, String, String),
    Wiki(String),
    WikiPiped(String, String),
    Image(String, String),
    Autolink(String),
    SoftBreak,
    HardBreak,
    Raw(String),
}

#[derive(Clone, Debug)]
pub enum GB {
    Para(Vec<GI>),
    Heading(u8, Vec<GI>),
    Bullet(Vec<Vec<GB>>),
    Ordered(usize, Vec<Vec<GB>>),
    Quote(Vec<GB>),
    Code(Option<String>, String),
    Rule,
    Table(Vec<Vec<Vec<GI>>>),
    Html(String),
}

#[derive(Clone, Debug)]
pub struct Style {
    pub bullet: char,
    pub setext: bool,
    pub loose: bool,
    pub crlf: bool,
    pub final_newline: bool,
    pub ordered_paren: bool,
    pub extra_blank: bool,
    pub pad: usize,
}

impl Style {
    pub fn plain() -> Style {
        Style { bullet: '-', setext: false, loose: false, crlf: false, final_newline: true, ordered_paren: false, extra_blank: false, pad: 1 }
    }
    pub fn random(rng: &mut Rng) -> Style {
        Style {
            bullet: *rng.pick(&['-', '-', '*', '+']),
            setext: rng.chance(1, 4),
            loose: rng.chance(1, 3),
            crlf: rng.chance(1, 8),
            final_newline: !rng.chance(1, 6),
            ordered_paren: rng.chance(1, 6),
            extra_blank: rng.chance(1, 6),
            pad: if rng.chance(1, 5) { rng.range(2, 3) } else { 1 },
        }
    }
}

pub struct Ctx<'a> {
    /// link targets (urls as they should be written from this note)
    pub targets: &'a [String],
    pub hostile: bool,
    pub max_depth: usize,
}

const WORDS: &[&str] = &[
    "alpha", "beta", "gamma", "delta", "note", "text", "word", "x", "y", "z", "item", "one", "two", "three", "lorem", "ipsum", "foo",
    "bar", "baz", "q",
];
const HOSTILE: &[&str] = &[
    "é", "日本語", "😀", "naïve", "a_b", "a*b", "2*3", "#tag", "1.", "1)", "-", "+", "&amp;", "&lt;", "<b>", "</b>", "\\#", "\\*", "[x]", "(y)", "`",
    "a|b", "~", "$5", "_u_", "http://x.io", "c:\\d", ">", "!", "\u{a0}", "x\u{a0}", "--", "***", "===", "[[", "]]", "<", "&",
];

pub fn word(rng: &mut Rng, hostile: bool) -> String {
    if hostile && rng.chance(1, 3) {
        rng.pick(HOSTILE).to_string()
    } else {
        rng.pick(WORDS).to_string()
    }
}

fn words(rng: &mut Rng, hostile: bool, lo: usize, hi: usize) -> Vec<GI> {
    let n = rng.range(lo, hi);
    (0..n).map(|_| GI::Word(word(rng, hostile))).collect()
}

pub fn target(rng: &mut Rng, ctx: &Ctx) -> String {
    if ctx.targets.is_empty() || rng.chance(1, 8) {
        rng.pick(&["missing", "nope/none", "../up", "http://example.com", "https://e.org/a.md", "mailto:a@b.c", "HTTP://UP.CASE", "x.md", "./a", "a.md", "пропажа", "日本語の資料", "abcdéfgh"]).to_string()
    } else {
        let t = rng.pick(ctx.targets).clone();
        if rng.chance(1, 6) { format!("{}.md", t) } else { t }
    }
}

pub fn inlines(rng: &mut Rng, ctx: &Ctx, depth: usize) -> Vec<GI> {
    let n = rng.range(1, 4);
    let mut out = vec![];
    for _ in 0..n {
        let k = rng.below(if depth > 1 { 6 } else { 16 });
        let it = match k {
            0..=5 => GI::Word(word(rng, ctx.hostile)),
            6 => GI::Emph(inlines(rng, ctx, depth + 1)),
            7 => GI::Strong(inlines(rng, ctx, depth + 1)),
            8 => GI::CodeSpan(if ctx.hostile && rng.chance(1, 3) { "a ` b".into() } else { word(rng, false) }),
            9 | 10 => GI::Link(if rng.chance(1, 5) { inlines(rng, ctx, depth + 2) } else { words(rng, ctx.hostile, 1, 2) }, target(rng, ctx)),
            11 => GI::Wiki(target(rng, ctx)),
            12 => GI::WikiPiped(target(rng, ctx), word(rng, false)),
            13 => match rng.below(5) {
                0 => GI::Image(word(rng, false), "img.png".into()),
                1 => GI::Autolink("http://example.com/p".into()),
                2 => GI::Strike(words(rng, false, 1, 2)),
                3 => GI::LinkTitled(words(rng, false, 1, 2), target(rng, ctx), "title".into()),
                _ => GI::Word(word(rng, ctx.hostile)),
            },
            14 => if rng.chance(1, 2) { GI::SoftBreak } else { GI::Word(word(rng, ctx.hostile)) },
            _ => if ctx.hostile && rng.chance(1, 2) { if rng.chance(1, 2) { GI::HardBreak } else { GI::Raw(rng.pick(&["<span>", "<br/>", "&copy;", "\\", "  "]).to_string()) } } else { GI::Word(word(rng, false)) },
        };
        out.push(it);
    }
    // a break can neither start nor end a paragraph
    while matches!(out.first(), Some(GI::SoftBreak) | Some(GI::HardBreak)) { out.remove(0); }
    while matches!(out.last(), Some(GI::SoftBreak) | Some(GI::HardBreak)) { out.pop(); }
    if out.is_empty() { out.push(GI::Word("w".into())); }
    out
}

fn ref_para(rng: &mut Rng, ctx: &Ctx) -> GB {
    let t = target(rng, ctx);
    let text = if rng.chance(1, 6) { vec![GI::Strong(vec![GI::Word("b".into())]), GI::Word("x".into())] } else { words(rng, false, 1, 2) };
    match rng.below(6) {
        0 => GB::Para(vec![GI::Wiki(t)]),
        1 => GB::Para(vec![GI::WikiPiped(t, word(rng, false))]),
        _ => GB::Para(vec![GI::Link(text, t)]),
    }
}

pub fn block(rng: &mut Rng, ctx: &Ctx, depth: usize, in_item: bool) -> GB {
    let deep = depth >= ctx.max_depth;
    let k = rng.below(if deep { 10 } else { 20 });
    match k {
        0..=3 => GB::Para(inlines(rng, ctx, 0)),
        4 | 5 => ref_para(rng, ctx),
        6 => GB::Code(if rng.chance(1, 2) { Some(rng.pick(&["rust", "sh", "py x"]).to_string()) } else { None },
                      if ctx.hostile && rng.chance(1, 4) { "a\n\n  b\n```x\n".into() } else { format!("{}\n{}", word(rng, false), if rng.chance(1, 2) { "  two\n" } else { "" }) }),
        7 => GB::Rule,
        8 | 9 => GB::Heading(rng.range(1, 6) as u8, inlines(rng, ctx, 1)),
        10..=13 => {
            let n = if rng.chance(1, 12) { rng.range(10, 13) } else { rng.range(1, 4) };
            let items = (0..n).map(|_| item(rng, ctx, depth + 1)).collect();
            if rng.chance(1, 2) { GB::Bullet(items) } else { GB::Ordered(if rng.chance(1, 4) { rng.range(0, 12) } else { 1 }, items) }
        }
        14 | 15 => GB::Quote(blocks(rng, ctx, depth + 1, 1, 3, false)),
        16 => {
            let cols = rng.range(1, 3);
            let rows = rng.range(1, 3);
            // cells: a link, a code span (alone or after a word), plain words
            GB::Table((0..rows + 1).map(|_| (0..cols).map(|_| match rng.below(8) {
                0 | 1 => vec![GI::Link(words(rng, false, 1, 1), target(rng, ctx))],
                2 => vec![GI::CodeSpan(word(rng, false))],
                3 => vec![GI::Word(word(rng, false)), GI::CodeSpan(word(rng, ctx.hostile))],
                _ => words(rng, ctx.hostile, 1, 2),
            }).collect()).collect())
        }
        17 => if in_item { GB::Para(inlines(rng, ctx, 0)) } else { GB::Heading(rng.range(1, 3) as u8, inlines(rng, ctx, 1)) },
        18 => if ctx.hostile { GB::Html(rng.pick(&["<div>\nhtml\n</div>", "<!-- c -->", "[ref]: http://x.io \"t\""]).to_string()) } else { GB::Para(inlines(rng, ctx, 0)) },
        _ => GB::Heading(rng.range(1, 6) as u8, inlines(rng, ctx, 1)),
    }
}

fn item(rng: &mut Rng, ctx: &Ctx, depth: usize) -> Vec<GB> {
    // mostly: text first, then 0..2 further blocks; sometimes odd leads (C03/C07 classes)
    let lead = rng.below(24);
    let mut out = vec![];
    match lead {
        0 => return vec![], // empty item
        1 => out.push(GB::Heading(rng.range(1, 3) as u8, inlines(rng, ctx, 1))),
        2 => { if depth < ctx.max_depth { out.push(GB::Bullet(vec![item(rng, ctx, depth + 1)])); } else { out.push(GB::Para(inlines(rng, ctx, 0))); } }
        // items that do not start with text (since the builder repair ed04cde they are ordinary input:
        // one section without text over all the blocks of the item)
        3 => out.push(GB::Code(None, "code\n".into())),
        4 => out.push(GB::Quote(vec![GB::Para(inlines(rng, ctx, 0))])),
        5 => out.push(GB::Rule),
        _ => out.push(GB::Para(inlines(rng, ctx, 0))),
    }
    let more = if rng.chance(1, 2) { 0 } else { rng.range(1, 2) };
    for _ in 0..more {
        out.push(block(rng, ctx, depth, true));
    }
    out
}

pub fn blocks(rng: &mut Rng, ctx: &Ctx, depth: usize, lo: usize, hi: usize, _top: bool) -> Vec<GB> {
    let n = rng.range(lo, hi);
    (0..n).map(|_| block(rng, ctx, depth, false)).collect()
}

/// Heading-level walk styles for top-level documents (C07)
pub fn document(rng: &mut Rng, ctx: &Ctx) -> Vec<GB> {
    let mut bs = blocks(rng, ctx, 0, 1, 7, true);
    match rng.below(5) {
        0 => {
            // well-nested outline
            let mut level = 0u8;
            for b in bs.iter_mut() {
                if let GB::Heading(l, _) = b {
                    let max = (level + 1).min(6);
                    *l = 1 + (rng.below(max as usize) as u8);
                    level = *l;
                }
            }
        }
        1 => { if rng.chance(1, 2) { bs.insert(0, GB::Heading(1, inlines(rng, ctx, 1))); } }
        _ => {}
    }
    if rng.chance(2, 3) {
        // most notes start with a title
        if !matches!(bs.first(), Some(GB::Heading(_, _))) {
            bs.insert(0, GB::Heading(rng.range(1, 2) as u8, words(rng, ctx.hostile, 1, 3)));
        }
    }
    bs
}

// ------------------------------------------------------------------ source writer

fn inl_src(out: &mut String, it: &GI) {
    match it {
        GI::Word(w) => out.push_str(w),
        GI::Emph(l) => { out.push('*'); inls_src(out, l); out.push('*'); }
        GI::Strong(l) => { out.push_str("**"); inls_src(out, l); out.push_str("**"); }
        GI::Strike(l) => { out.push_str("~~"); inls_src(out, l); out.push_str("~~"); }
        GI::CodeSpan(c) => { if c.contains('`') { out.push_str("`` "); out.push_str(c); out.push_str(" ``"); } else { out.push('`'); out.push_str(c); out.push('`'); } }
        GI::Link(t, u) => { out.push('['); inls_src(out, t); out.push_str("]("); out.push_str(u); out.push(')'); }
        GI::LinkTitled(t, u, ti) => { out.push('['); inls_src(out, t); out.push_str("]("); out.push_str(u); out.push_str(" \""); out.push_str(ti); out.push_str("\")"); }
        GI::Wiki(u) => { out.push_str("[["); out.push_str(u); out.push_str("]]"); }
        GI::WikiPiped(u, t) => { out.push_str("[["); out.push_str(u); out.push('|'); out.push_str(t); out.push_str("]]"); }
        GI::Image(t, u) => { out.push_str("!["); out.push_str(t); out.push_str("]("); out.push_str(u); out.push(')'); }
        GI::Autolink(u) => { out.push('<'); out.push_str(u); out.push('>'); }
        GI::SoftBreak => out.push('\n'),
        GI::HardBreak => out.push_str("  \n"),
        GI::Raw(r) => out.push_str(r),
    }
}

pub fn inls_src(out: &mut String, l: &[GI]) {
    let mut prev_break = true;
    for (i, it) in l.iter().enumerate() {
        let is_break = matches!(it, GI::SoftBreak | GI::HardBreak);
        if i > 0 && !prev_break && !is_break {
            out.push(' ');
        }
        inl_src(out, it);
        prev_break = is_break;
    }
}

fn indent(text: &str, first: &str, rest: &str) -> String {
    let mut out = String::new();
    for (n, line) in text.split('\n').enumerate() {
        if n > 0 { out.push('\n'); }
        if line.is_empty() { continue; }
        out.push_str(if n == 0 { first } else { rest });
        out.push_str(line);
    }
    out
}

pub fn blocks_src(bs: &[GB], st: &Style, tight: bool) -> String {
    let mut parts: Vec<String> = vec![];
    for b in bs {
        parts.push(block_src(b, st));
    }
    let sep = if tight { "\n" } else if st.extra_blank { "\n\n\n" } else { "\n\n" };
    parts.join(sep)
}

fn block_src(b: &GB, st: &Style) -> String {
    match b {
        GB::Para(l) => { let mut s = String::new(); inls_src(&mut s, l); s }
        GB::Heading(level, l) => {
            let mut s = String::new();
            inls_src(&mut s, l);
            let s = s.replace('\n', " ");
            if st.setext && *level <= 2 {
                format!("{}\n{}", s, if *level == 1 { "===" } else { "---" })
            } else {
                format!("{} {}", "#".repeat(*level as usize), s)
            }
        }
        GB::Bullet(items) => {
            let mut out = vec![];
            for it in items {
                let body = blocks_src(it, st, !st.loose && it.len() <= 2 && it.iter().skip(1).all(|b| matches!(b, GB::Bullet(_) | GB::Ordered(_, _))));
                let marker = format!("{}{}", st.bullet, " ".repeat(st.pad));
                if body.is_empty() { out.push(format!("{}", st.bullet)); } else { out.push(indent(&body, &marker, &" ".repeat(marker.len()))); }
            }
            out.join(if st.loose { "\n\n" } else { "\n" })
        }
        GB::Ordered(start, items) => {
            let mut out = vec![];
            for (n, it) in items.iter().enumerate() {
                let body = blocks_src(it, st, !st.loose && it.len() <= 2 && it.iter().skip(1).all(|b| matches!(b, GB::Bullet(_) | GB::Ordered(_, _))));
                let marker = format!("{}{}{}", start + n, if st.ordered_paren { ')' } else { '.' }, " ".repeat(st.pad));
                if body.is_empty() { out.push(marker.trim_end().to_string()); } else { out.push(indent(&body, &marker, &" ".repeat(marker.len()))); }
            }
            out.join(if st.loose { "\n\n" } else { "\n" })
        }
        GB::Quote(bs) => indent(&blocks_src(bs, st, false), "> ", "> ").split('\n').map(|l| if l.is_empty() { ">".to_string() } else { l.to_string() }).collect::<Vec<_>>().join("\n"),
        GB::Code(lang, body) => format!("```{}\n{}{}```", lang.clone().unwrap_or_default(), body, if body.ends_with('\n') { "" } else { "\n" }),
        GB::Rule => (*["---", "***", "- - -", "___"].get(st.pad % 4).unwrap()).to_string(),
        GB::Table(rows) => {
            let mut out = vec![];
            for (n, row) in rows.iter().enumerate() {
                let cells: Vec<String> = row.iter().map(|c| { let mut s = String::new(); inls_src(&mut s, c); s.replace('\n', " ").replace('|', "\\|") }).collect();
                out.push(format!("| {} |", cells.join(" | ")));
                if n == 0 {
                    out.push(format!("|{}|", row.iter().enumerate().map(|(i, _)| ["---", ":--", "--:", ":-:"][i % 4]).collect::<Vec<_>>().join("|")));
                }
            }
            out.join("\n")
        }
        GB::Html(h) => h.clone(),
    }
}

pub fn document_src(bs: &[GB], st: &Style, front_matter: Option<&str>) -> String {
    let mut s = String::new();
    if let Some(fm) = front_matter {
        s.push_str("---\n");
        s.push_str(fm);
        s.push_str("---\n\n");
    }
    s.push_str(&blocks_src(bs, st, false));
    if st.final_newline { s.push('\n'); }
    if st.crlf { s = s.replace('\n', "\r\n"); }
    s
}

// ------------------------------------------------------------------ libraries

pub const KEYS: &[&str] = &["a", "b", "c", "d/a", "d/b", "d/e/c", "e/a", "n1", "n2", "d/e/f", "заметки", "d/日本語ノート", "notes-éé", "x y", "ü"];

/// url a note in directory `dir` writes to reach `key` (same algorithm the users follow: relative)
pub fn rel_url(key: &str, dir: &str) -> String {
    relative_path::RelativePath::new(dir).relative(key).to_string()
}

pub fn dir_of(key: &str) -> String {
    match key.rfind('/') { Some(i) => key[..i].to_string(), None => String::new() }
}

pub struct Note {
    pub name: String, // state name (file stem), key = name
    pub text: String,
}

pub fn library(rng: &mut Rng, hostile: bool, max_notes: usize, nested: bool) -> Vec<Note> {
    let n = rng.range(1, max_notes);
    // nested libraries also hold directories whose NAMES share a prefix without being nested (d, dx, d2):
    // a string prefix is not a path prefix
    let pool: Vec<&str> = if nested { let mut p = KEYS[..13].to_vec(); p.extend_from_slice(&["dx/a", "dx/y/b", "d2", "d/x/a"]); p } else { vec!["a", "b", "c", "n1", "n2", "k", "m", "заметки", "notes-éé"] };
    let mut keys: Vec<String> = vec![];
    while keys.len() < n {
        let k = rng.pick(&pool).to_string();
        if !keys.contains(&k) { keys.push(k); }
    }
    let mut notes = vec![];
    for k in &keys {
        let dir = dir_of(k);
        let targets: Vec<String> = keys.iter().map(|t| rel_url(t, &dir)).filter(|u| !u.is_empty()).collect();
        let ctx = Ctx { targets: &targets, hostile, max_depth: 3 };
        let doc = document(rng, &ctx);
        let st = if hostile { Style::random(rng) } else if rng.chance(1, 2) { Style::plain() } else { Style::random(rng) };
        let fm = if rng.chance(1, 8) { Some("title: t\ntags: [a, b]\n") } else { None };
        notes.push(Note { name: k.clone(), text: document_src(&doc, &st, fm) });
    }
    notes
}
