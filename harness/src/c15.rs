//! C15 — Key / relative-path algebra: observations of the real `liwe::model::Key` API and of
//! the `relative-path` crate on (key, directory, url) triples; and (inputs of kind "lsp") the links an
//! editor is handed by a real `iwes::router::server::Server` in ONE session on a library with notes in
//! several directories: `textDocument/completion` asked from notes in different directories, with and
//! without didChange in between, and `refactor.extract.section` in a sub-directory.
//!
//! lsp input: {"kind":"lsp","shape":..,"ext":..,"notes":[[key,text],..],
//!             "steps":[["complete",key] | ["change",key,text] | ["extract",key,line],..]}
//! (the title of a note is the rest of its first line when that starts with `# `)
use crate::gal::*;
use crate::rng::Rng;
use crate::PropModule;
use liwe::model::{is_ref_url, ref_url, strip_md, Key};
use relative_path::RelativePath;
use serde_json::{json, Value};
use iwes::router::server::Server;
use iwes::router::{LspClient, ServerConfig};
use liwe::model::config::{Configuration, MarkdownOptions};
use lsp_types::*;
use std::collections::{BTreeMap, BTreeSet};
use std::panic::{catch_unwind, AssertUnwindSafe};

pub fn module() -> PropModule {
    PropModule { coq_module: "Check_C15", runner: "Check_C15.run_all", generate, execute, label }
}

fn key(s: &str) -> Key {
    Key { relative_path: std::sync::Arc::new(s.to_string()) }
}

fn all_paths(names: &[&str], max_depth: usize) -> Vec<String> {
    let mut out = vec![];
    let mut level: Vec<Vec<&str>> = vec![vec![]];
    for _ in 0..max_depth {
        let mut next = vec![];
        for p in &level {
            for n in names {
                let mut q = p.clone();
                q.push(n);
                out.push(q.join("/"));
                next.push(q);
            }
        }
        level = next;
    }
    out
}

const SEGS: &[&str] = &[
    "a", "b", "c", "d", "note", "x.y", "a.md", "md", ".m", "d.md.md", "é", "日本", "a b", "%20", "..", ".", "", "...", ".md",
    "A", "0", "-", "_", "~", "😀",
];

fn rand_path(rng: &mut Rng, hostile: bool) -> String {
    let n = rng.range(if hostile { 0 } else { 1 }, 5);
    let mut parts = vec![];
    for _ in 0..n {
        if hostile {
            parts.push(rng.pick(SEGS).to_string());
        } else {
            parts.push(rng.pick(&SEGS[..14]).to_string());
        }
    }
    let mut s = parts.join("/");
    if hostile {
        if rng.chance(1, 6) { s = format!("/{}", s); }
        if rng.chance(1, 6) { s.push('/'); }
        if rng.chance(1, 5) { s.push_str(".md"); }
        if rng.chance(1, 12) { s = format!("{}://{}", rng.pick(&["http", "HTTP", "https", "HttpS", "mailto", "file", "ftp"]), s); }
        if rng.chance(1, 12) { s = format!("{}{}", rng.pick(&["mailto:", "MAILTO:", "Mailto:", "http:/", "https:"]), s); }
    }
    s
}

pub fn generate(rng: &mut Rng, thorough: bool) -> Vec<Value> {
    let mut out = vec![];
    // exhaustive: every (key, directory) over <= 3 segments from a 3-name alphabet (1 560 pairs),
    // the url being a third path with `.`/`..` forms
    let names = ["a", "b", "c"];
    let keys = all_paths(&names, 3);
    let mut dirs = all_paths(&names, 3);
    dirs.push(String::new());
    let urls = all_paths(&["a", "..", ".", "b.md"], if thorough { 4 } else { 3 });
    let mut u = 0;
    for k in &keys {
        for d in &dirs {
            out.push(json!({"key": k, "dir": d, "url": urls[u % urls.len()], "kind": "exhaustive"}));
            u += 1;
        }
    }
    // every url form against a few directories
    for url in &urls {
        for d in ["", "a", "a/b"] {
            out.push(json!({"key": "a/c", "dir": d, "url": url, "kind": "urlforms"}));
        }
    }
    let n = if thorough { 20000 } else { 500 };
    for i in 0..n {
        let hostile = i % 3 == 2;
        let k = rand_path(rng, false);
        let hd = hostile && rng.chance(1, 2);
        let d = if rng.chance(1, 8) { String::new() } else { rand_path(rng, hd) };
        let url = rand_path(rng, true);
        out.push(json!({"key": k, "dir": d, "url": url, "kind": if hostile { "random-hostile" } else { "random" }}));
    }
    // LSP sessions (after the Key API inputs: their random stream stays what it was)
    let n = if thorough { 2400 } else { 160 };
    for i in 0..n {
        out.push(lsp_session(rng, i));
    }
    out
}

pub fn label(v: &Value) -> String {
    if v["kind"].as_str() == Some("lsp") {
        return lsp_label(v);
    }
    let k = v["key"].as_str().unwrap();
    let d = v["dir"].as_str().unwrap();
    let rel = if d.is_empty() {
        "dir=root"
    } else if k == d {
        "key=dir"
    } else if k.starts_with(&format!("{}/", d)) {
        "key-under-dir"
    } else if d.starts_with(&format!("{}/", k)) {
        "dir-under-key"
    } else if k.split('/').next() == d.split('/').next() {
        "common-prefix"
    } else {
        "disjoint"
    };
    format!("{}:{}", v["kind"].as_str().unwrap_or("?"), rel)
}

pub fn execute(v: &Value) -> String {
    if v["kind"].as_str() == Some("lsp") {
        return gapp("Check_C15.Lsp", &[execute_lsp(v)]);
    }
    gapp("Check_C15.KeyApi", &[execute_key_api(v)])
}

fn execute_key_api(v: &Value) -> String {
    let k = v["key"].as_str().unwrap();
    let d = v["dir"].as_str().unwrap();
    let u = v["url"].as_str().unwrap();
    let kk = key(k);
    let to_rel = kk.to_rel_link_url(d);
    let rt = Key::from_rel_link_url(&to_rel, d).to_string();
    let from_rel = Key::from_rel_link_url(u, d).to_string();
    let rewrite = Key::from_rel_link_url(&key(&from_rel).to_rel_link_url(d), d).to_string();
    let parent = kk.parent();
    let self_rt = Key::from_rel_link_url(&kk.to_rel_link_url(&parent), &parent).to_string();
    let url_parent = key(u).parent();
    let from_file = Key::from_file_name(u).to_string();
    let to_path = kk.to_path();
    let is_ref = is_ref_url(u);
    let cj = RelativePath::new(d).join(u).to_string();
    let cjn = RelativePath::new(d).join_normalized(u).to_string();
    let cr = RelativePath::new(d).relative(u).to_string();
    let cn = RelativePath::new(u).normalize().to_string();
    // the url as it is written: with the configured extension (".md" / none)
    let w = |url: &str, d: &str, ext: &str| Key::from_rel_link_url(&ref_url(url, ext), d).to_string();
    let rewrite_url = key(&from_rel).to_rel_link_url(d);
    let self_url = kk.to_rel_link_url(&parent);
    let path_key = Key::from_file_name(&to_path).to_string();
    gapp(
        "Check_C15.Case",
        &[
            gstr(k), gstr(d), gstr(u), gstr(&to_rel), gstr(&rt), gstr(&from_rel), gstr(&rewrite), gstr(&parent),
            gstr(&self_rt), gstr(&url_parent), gstr(&from_file), gstr(&to_path), gbool(is_ref), gstr(&cj),
            gstr(&cjn), gstr(&cr), gstr(&cn),
            gstr(&ref_url(&to_rel, ".md")), gstr(&ref_url(&to_rel, "")), gstr(&ref_url(u, ".md")), gstr(&ref_url(u, "")),
            gstr(strip_md(u)),
            gstr(&w(&to_rel, d, ".md")), gstr(&w(&to_rel, d, "")),
            gstr(&w(&rewrite_url, d, ".md")), gstr(&w(&rewrite_url, d, "")),
            gstr(&w(&self_url, &parent, ".md")), gstr(&w(&self_url, &parent, "")),
            gstr(&path_key),
        ],
    )
}

// ------------------------------------------------------------------------------------------------
// LSP sessions

const LSP_DIRS: &[&str] = &["", "d", "d/e", "other"];
const LSP_MORE_DIRS: &[&str] = &["d/e/f", "a b", "é", "other/d", "dir/deep"];
const LSP_NAMES: &[&str] = &["a", "b", "n", "note", "x.y", "a.md", "a b", "é", "日本", "top", "leaf", "d", "sub"];
const LSP_TITLES: &[&str] = &["top-level", "sub-document", "leaf", "Alpha", "beta gamma", "Ünï cödé", "T", "x", "日本語 ノート", "a.md", "Note 7"];
const LSP_SUBS: &[&str] = &["Part", "more of it", "Détails", "S 2"];

fn in_dir(dir: &str, name: &str) -> String {
    if dir.is_empty() { name.to_string() } else { format!("{}/{}", dir, name) }
}

fn dir_of(key: &str) -> &str {
    key.rfind('/').map(|i| &key[..i]).unwrap_or("")
}

/// the title of a generated note: the rest of the first line when it starts with `# `
fn title_of(text: &str) -> Option<String> {
    let first = text.split('\n').next().unwrap_or("");
    first.strip_prefix("# ").map(|t| t.trim().to_string())
}

/// line numbers and titles of the `## ` headings of a generated note
fn sub_headings(text: &str) -> Vec<(usize, String)> {
    text.split('\n').enumerate().filter_map(|(i, l)| l.strip_prefix("## ").map(|t| (i, t.trim().to_string()))).collect()
}

fn lsp_text(rng: &mut Rng, key: &str, serial: usize) -> String {
    let mut t = String::new();
    if !rng.chance(1, 7) {
        let title = rng.pick(LSP_TITLES).to_string();
        if rng.chance(2, 3) { t.push_str(&format!("# {} {}\n\n", title, serial)); } else { t.push_str(&format!("# {}\n\n", title)); }
    }
    if rng.chance(1, 4) { t.push_str(&format!("words of {} with [a link](other/a) inside\n", key)); } else { t.push_str(&format!("words of {}\n", key)); }
    if rng.chance(1, 2) {
        t.push_str(&format!("\n## {}\n\nbody of the part\n", rng.pick(LSP_SUBS)));
        if rng.chance(1, 3) { t.push_str(&format!("\n## {} b\n\nsecond part\n", rng.pick(LSP_SUBS))); }
    }
    t
}

fn lsp_session(rng: &mut Rng, i: usize) -> Value {
    // directories: the root and two to four more
    let mut dirs: Vec<String> = vec![String::new()];
    let mut pool: Vec<&str> = LSP_DIRS[1..].to_vec();
    if rng.chance(1, 2) { pool.push(*rng.pick(LSP_MORE_DIRS)); }
    let n_dirs = rng.range(2, pool.len().min(4));
    while dirs.len() < 1 + n_dirs {
        let d = rng.pick(&pool).to_string();
        if !dirs.contains(&d) { dirs.push(d); }
    }
    let mut notes: Vec<(String, String)> = vec![];
    let mut serial = 0usize;
    let add = |notes: &mut Vec<(String, String)>, rng: &mut Rng, key: String, serial: &mut usize| {
        if !notes.iter().any(|n| n.0 == key) {
            *serial += 1;
            let text = lsp_text(rng, &key, *serial);
            notes.push((key, text));
        }
    };
    for d in &dirs {
        for _ in 0..rng.range(1, 2) {
            let key = in_dir(d, *rng.pick(LSP_NAMES));
            add(&mut notes, rng, key, &mut serial);
        }
    }
    // the same file name in two directories
    let (k0, _) = rng.pick(&notes).clone();
    let name = k0.rsplit('/').next().unwrap().to_string();
    let others: Vec<String> = dirs.iter().filter(|d| d.as_str() != dir_of(&k0)).cloned().collect();
    let key = in_dir(rng.pick(&others).as_str(), &name);
    add(&mut notes, rng, key, &mut serial);
    // sometimes two notes with one title in different directories
    if rng.chance(1, 3) && notes.len() >= 2 {
        let a = rng.below(notes.len());
        let b = rng.below(notes.len());
        if a != b && dir_of(&notes[a].0) != dir_of(&notes[b].0) {
            if let Some(t) = title_of(&notes[a].1) {
                notes[b].1 = format!("# {}\n\nwords of {}\n", t, notes[b].0);
            }
        }
    }

    let mut cur: BTreeMap<String, String> = notes.iter().cloned().collect();
    let mut steps: Vec<Value> = vec![];
    let shape = match i % 4 { 0 => "two-dirs-first", 1 => "change-between", _ => "mixed" };
    let pick_key = |rng: &mut Rng, cur: &BTreeMap<String, String>| -> String {
        let keys: Vec<&String> = cur.keys().collect();
        (*rng.pick(&keys)).clone()
    };
    // the opening of the session
    match shape {
        "two-dirs-first" | "change-between" => {
            let a = pick_key(rng, &cur);
            let others: Vec<String> = cur.keys().filter(|k| dir_of(k) != dir_of(&a)).cloned().collect();
            let b = rng.pick(&others).clone();
            steps.push(json!(["complete", a]));
            if shape == "change-between" {
                let k = pick_key(rng, &cur);
                serial += 1;
                let text = if rng.chance(1, 3) { cur[&k].clone() } else { lsp_text(rng, &k, serial) };
                cur.insert(k.clone(), text.clone());
                steps.push(json!(["change", k, text]));
            }
            steps.push(json!(["complete", b]));
        }
        _ => {}
    }
    for _ in 0..rng.range(2, 6) {
        match rng.below(8) {
            0 | 1 => {
                // didChange: a note of the library (new title, same text, heading gone) or a new note
                let k = if rng.chance(1, 6) {
                    let d = if rng.chance(1, 2) { rng.pick(&dirs).clone() } else { rng.pick(LSP_MORE_DIRS).to_string() };
                    in_dir(&d, *rng.pick(&["new", "fresh", "a", "leaf"]))
                } else {
                    pick_key(rng, &cur)
                };
                serial += 1;
                let text = match cur.get(&k) {
                    Some(t) if rng.chance(1, 4) => t.clone(),
                    _ => lsp_text(rng, &k, serial),
                };
                cur.insert(k.clone(), text.clone());
                steps.push(json!(["change", k, text]));
            }
            2 => {
                // (a `## ` heading of a note that starts with its `# ` title: a section inside a section)
                let with_sub: Vec<(String, usize)> = cur
                    .iter()
                    .filter(|(_, t)| title_of(t).is_some())
                    .flat_map(|(k, t)| sub_headings(t).into_iter().map(move |(l, _)| (k.clone(), l)))
                    .collect();
                if !with_sub.is_empty() {
                    let (k, l) = rng.pick(&with_sub).clone();
                    steps.push(json!(["extract", k, l]));
                }
            }
            3 if rng.chance(1, 3) => {
                // a buffer the library does not hold yet
                let d = if rng.chance(1, 2) { rng.pick(&dirs).clone() } else { rng.pick(LSP_MORE_DIRS).to_string() };
                steps.push(json!(["complete", in_dir(&d, "unsaved")]));
            }
            _ => steps.push(json!(["complete", pick_key(rng, &cur)])),
        }
    }
    let ext = if rng.chance(1, 2) { ".md" } else { "" };
    json!({"kind": "lsp", "shape": shape, "ext": ext,
           "notes": notes.iter().map(|n| json!([n.0, n.1])).collect::<Vec<_>>(), "steps": steps})
}

fn lsp_label(v: &Value) -> String {
    let steps = v["steps"].as_array().cloned().unwrap_or_default();
    let mut dirs = BTreeSet::new();
    let (mut completes, mut changes, mut extracts) = (0, 0, 0);
    for s in &steps {
        match s[0].as_str() {
            Some("complete") => { completes += 1; dirs.insert(dir_of(s[1].as_str().unwrap_or("")).to_string()); }
            Some("change") => changes += 1,
            Some("extract") => extracts += 1,
            _ => {}
        }
    }
    let _ = completes;
    format!("lsp:{}:ext={}:asking-dirs={}{}{}", v["shape"].as_str().unwrap_or("?"), v["ext"].as_str().unwrap_or(""),
            if dirs.len() >= 3 { "3+".to_string() } else { dirs.len().to_string() },
            if changes > 0 { ":didChange" } else { "" }, if extracts > 0 { ":extract" } else { "" })
}

const LSP_BASE: &str = "file:///basepath/";

fn lsp_uri(key: &str) -> Url {
    Url::from_file_path(format!("/basepath/{}.md", key)).unwrap()
}

/// key of a uri under the base path: the decoded path without the base and without one `.md`
fn lsp_key_of(uri: &Url) -> String {
    let s = match uri.to_file_path() {
        Ok(p) => format!("file://{}", p.to_string_lossy()),
        Err(_) => uri.to_string(),
    };
    let s = s.strip_prefix(LSP_BASE).unwrap_or(&s).to_string();
    s.strip_suffix(".md").unwrap_or(&s).to_string()
}

fn gtitle(text: &str) -> String {
    gopt(title_of(text).map(|t| gstr(&t)))
}

fn execute_lsp(v: &Value) -> String {
    let ext = v["ext"].as_str().unwrap_or("");
    let notes: Vec<(String, String)> = v["notes"].as_array().unwrap().iter()
        .map(|n| (n[0].as_str().unwrap().to_string(), n[1].as_str().unwrap().to_string())).collect();
    let lib = glist(&notes.iter().map(|(k, t)| gpair(&gstr(k), &gtitle(t))).collect::<Vec<_>>());
    let server = catch_unwind(AssertUnwindSafe(|| {
        Server::new(ServerConfig {
            base_path: "/basepath".to_string(),
            state: notes.iter().cloned().collect(),
            sequential_ids: Some(true),
            lsp_client: LspClient::Unknown,
            configuration: Configuration { markdown: MarkdownOptions { refs_extension: ext.to_string() }, ..Default::default() },
        })
    }));
    let started = server.is_ok();
    let mut steps = vec![];
    if let Ok(mut server) = server {
        let mut cur: BTreeMap<String, String> = notes.iter().cloned().collect();
        for s in v["steps"].as_array().cloned().unwrap_or_default() {
            let key = s[1].as_str().unwrap_or("").to_string();
            match s[0].as_str() {
                Some("complete") => {
                    let params = CompletionParams {
                        text_document_position: TextDocumentPositionParams {
                            text_document: TextDocumentIdentifier { uri: lsp_uri(&key) },
                            position: Position::new(0, 0),
                        },
                        work_done_progress_params: Default::default(),
                        partial_result_params: Default::default(),
                        context: None,
                    };
                    let items = catch_unwind(AssertUnwindSafe(|| match server.handle_completion(params) {
                        CompletionResponse::List(l) => l.items,
                        CompletionResponse::Array(a) => a,
                    }))
                    .ok()
                    .map(|items| glist(&items.iter().map(|it| gpair(&gstr(&it.label), &gstr(it.insert_text.as_deref().unwrap_or("")))).collect::<Vec<_>>()));
                    steps.push(gapp("Check_C15.SComplete", &[gstr(&key), gopt(items)]));
                }
                Some("change") => {
                    let text = s[2].as_str().unwrap_or("").to_string();
                    let ok = catch_unwind(AssertUnwindSafe(|| {
                        server.handle_did_change_text_document(DidChangeTextDocumentParams {
                            text_document: VersionedTextDocumentIdentifier { uri: lsp_uri(&key), version: 2 },
                            content_changes: vec![TextDocumentContentChangeEvent { range: None, range_length: None, text: text.clone() }],
                        })
                    }))
                    .is_ok();
                    steps.push(gapp("Check_C15.SChange", &[gstr(&key), gtitle(&text), gbool(ok)]));
                    cur.insert(key, text);
                }
                Some("extract") => {
                    let line = s[2].as_u64().unwrap_or(0) as usize;
                    let title = cur.get(&key).and_then(|t| sub_headings(t).into_iter().find(|(l, _)| *l == line)).map(|x| x.1).unwrap_or_default();
                    // sequential ids: the number of keys + 1
                    let id = (cur.len() + 1).to_string();
                    let params = CodeActionParams {
                        text_document: TextDocumentIdentifier { uri: lsp_uri(&key) },
                        range: Range::new(Position::new(line as u32, 0), Position::new(line as u32, 0)),
                        context: CodeActionContext { diagnostics: vec![], only: Some(vec![CodeActionKind::new("refactor.extract.section")]), trigger_kind: None },
                        work_done_progress_params: Default::default(),
                        partial_result_params: Default::default(),
                    };
                    let obs = catch_unwind(AssertUnwindSafe(|| {
                        let offered = server.handle_code_action(&params).into_iter().find_map(|a| match a {
                            CodeActionOrCommand::CodeAction(ca) => Some(ca),
                            _ => None,
                        })?;
                        let resolved = server.handle_code_action_resolve(&offered);
                        let mut created: Option<String> = None;
                        let mut links: Vec<String> = vec![];
                        if let Some(WorkspaceEdit { document_changes: Some(DocumentChanges::Operations(ops)), .. }) = resolved.edit {
                            for op in ops {
                                match op {
                                    DocumentChangeOperation::Op(ResourceOp::Create(c)) => created = Some(lsp_key_of(&c.uri)),
                                    DocumentChangeOperation::Edit(e) if lsp_key_of(&e.text_document.uri) == key => {
                                        let text = e.edits.iter().map(|x| match x { OneOf::Left(t) => t.new_text.clone(), OneOf::Right(t) => t.text_edit.new_text.clone() }).collect::<Vec<_>>().join("");
                                        // the link lines the note is left with
                                        links.extend(text.split('\n').filter(|l| l.starts_with('[') && l.ends_with(')')).map(|l| l.to_string()));
                                    }
                                    _ => {}
                                }
                            }
                        }
                        Some((created.unwrap_or_default(), links))
                    }))
                    .ok()
                    .map(|o| gopt(o.map(|(c, l)| gpair(&gstr(&c), &glist(&l.iter().map(|x| gstr(x)).collect::<Vec<_>>())))));
                    steps.push(gapp("Check_C15.SExtract", &[gstr(&key), gstr(&title), gstr(&id), gopt(obs)]));
                }
                _ => {}
            }
        }
    }
    gapp("Check_C15.Session", &[gstr(ext), lib, gbool(started), glist(&steps)])
}
