//! C15 — Key / relative-path algebra: observations of the real `liwe::model::Key` API and of
//! the `relative-path` crate on (key, directory, url) triples.
use crate::gal::*;
use crate::rng::Rng;
use crate::PropModule;
use liwe::model::{is_ref_url, ref_url, strip_md, Key};
use relative_path::RelativePath;
use serde_json::{json, Value};

pub fn module() -> PropModule {
    PropModule { coq_module: "Check_C15", runner: "Check_C15.run", generate, execute, label }
}

fn key(s: &str) -> Key {
    Key { relative_path: std::sync::Arc::new(s.to_string()) }
}

fn all_paths(names: &[&str], max_depth: usize) -> Vec<String> {
    let mut out = vec![];
    let mut level: Vec<Vec<&str>> = vec![vec![]];
    for _ in 0..max_depth {
        let mut next = vec![];
        for p in &level {
            for n in names {
                let mut q = p.clone();
                q.push(n);
                out.push(q.join("/"));
                next.push(q);
            }
        }
        level = next;
    }
    out
}

const SEGS: &[&str] = &[
    "a", "b", "c", "d", "note", "x.y", "a.md", "md", ".m", "d.md.md", "é", "日本", "a b", "%20", "..", ".", "", "...", ".md",
    "A", "0", "-", "_", "~", "😀",
];

fn rand_path(rng: &mut Rng, hostile: bool) -> String {
    let n = rng.range(if hostile { 0 } else { 1 }, 5);
    let mut parts = vec![];
    for _ in 0..n {
        if hostile {
            parts.push(rng.pick(SEGS).to_string());
        } else {
            parts.push(rng.pick(&SEGS[..14]).to_string());
        }
    }
    let mut s = parts.join("/");
    if hostile {
        if rng.chance(1, 6) { s = format!("/{}", s); }
        if rng.chance(1, 6) { s.push('/'); }
        if rng.chance(1, 5) { s.push_str(".md"); }
        if rng.chance(1, 12) { s = format!("{}://{}", rng.pick(&["http", "HTTP", "https", "HttpS", "mailto", "file", "ftp"]), s); }
        if rng.chance(1, 12) { s = format!("{}{}", rng.pick(&["mailto:", "MAILTO:", "Mailto:", "http:/", "https:"]), s); }
    }
    s
}

pub fn generate(rng: &mut Rng, thorough: bool) -> Vec<Value> {
    let mut out = vec![];
    // exhaustive: every (key, directory) over <= 3 segments from a 3-name alphabet (1 560 pairs),
    // the url being a third path with `.`/`..` forms
    let names = ["a", "b", "c"];
    let keys = all_paths(&names, 3);
    let mut dirs = all_paths(&names, 3);
    dirs.push(String::new());
    let urls = all_paths(&["a", "..", ".", "b.md"], if thorough { 4 } else { 3 });
    let mut u = 0;
    for k in &keys {
        for d in &dirs {
            out.push(json!({"key": k, "dir": d, "url": urls[u % urls.len()], "kind": "exhaustive"}));
            u += 1;
        }
    }
    // every url form against a few directories
    for url in &urls {
        for d in ["", "a", "a/b"] {
            out.push(json!({"key": "a/c", "dir": d, "url": url, "kind": "urlforms"}));
        }
    }
    let n = if thorough { 20000 } else { 500 };
    for i in 0..n {
        let hostile = i % 3 == 2;
        let k = rand_path(rng, false);
        let hd = hostile && rng.chance(1, 2);
        let d = if rng.chance(1, 8) { String::new() } else { rand_path(rng, hd) };
        let url = rand_path(rng, true);
        out.push(json!({"key": k, "dir": d, "url": url, "kind": if hostile { "random-hostile" } else { "random" }}));
    }
    out
}

pub fn label(v: &Value) -> String {
    let k = v["key"].as_str().unwrap();
    let d = v["dir"].as_str().unwrap();
    let rel = if d.is_empty() {
        "dir=root"
    } else if k == d {
        "key=dir"
    } else if k.starts_with(&format!("{}/", d)) {
        "key-under-dir"
    } else if d.starts_with(&format!("{}/", k)) {
        "dir-under-key"
    } else if k.split('/').next() == d.split('/').next() {
        "common-prefix"
    } else {
        "disjoint"
    };
    format!("{}:{}", v["kind"].as_str().unwrap_or("?"), rel)
}

pub fn execute(v: &Value) -> String {
    let k = v["key"].as_str().unwrap();
    let d = v["dir"].as_str().unwrap();
    let u = v["url"].as_str().unwrap();
    let kk = key(k);
    let to_rel = kk.to_rel_link_url(d);
    let rt = Key::from_rel_link_url(&to_rel, d).to_string();
    let from_rel = Key::from_rel_link_url(u, d).to_string();
    let rewrite = Key::from_rel_link_url(&key(&from_rel).to_rel_link_url(d), d).to_string();
    let parent = kk.parent();
    let self_rt = Key::from_rel_link_url(&kk.to_rel_link_url(&parent), &parent).to_string();
    let url_parent = key(u).parent();
    let from_file = Key::from_file_name(u).to_string();
    let to_path = kk.to_path();
    let is_ref = is_ref_url(u);
    let cj = RelativePath::new(d).join(u).to_string();
    let cjn = RelativePath::new(d).join_normalized(u).to_string();
    let cr = RelativePath::new(d).relative(u).to_string();
    let cn = RelativePath::new(u).normalize().to_string();
    // the url as it is written: with the configured extension (".md" / none)
    let w = |url: &str, d: &str, ext: &str| Key::from_rel_link_url(&ref_url(url, ext), d).to_string();
    let rewrite_url = key(&from_rel).to_rel_link_url(d);
    let self_url = kk.to_rel_link_url(&parent);
    let path_key = Key::from_file_name(&to_path).to_string();
    gapp(
        "Check_C15.Case",
        &[
            gstr(k), gstr(d), gstr(u), gstr(&to_rel), gstr(&rt), gstr(&from_rel), gstr(&rewrite), gstr(&parent),
            gstr(&self_rt), gstr(&url_parent), gstr(&from_file), gstr(&to_path), gbool(is_ref), gstr(&cj),
            gstr(&cjn), gstr(&cr), gstr(&cn),
            gstr(&ref_url(&to_rel, ".md")), gstr(&ref_url(&to_rel, "")), gstr(&ref_url(u, ".md")), gstr(&ref_url(u, "")),
            gstr(strip_md(u)),
            gstr(&w(&to_rel, d, ".md")), gstr(&w(&to_rel, d, "")),
            gstr(&w(&rewrite_url, d, ".md")), gstr(&w(&rewrite_url, d, "")),
            gstr(&w(&self_url, &parent, ".md")), gstr(&w(&self_url, &parent, "")),
            gstr(&path_key),
        ],
    )
}
