//! C01 — the library case of lib_stage.rs plus an INDEPENDENT account of what each note says:
//! the characters of every Text / Code / InlineHtml event of pulldown-cmark itself (same Options
//! as the reader; outside raw HTML blocks and the front matter, which are documented drops /
//! kept apart) and the destination of every link and image, in document order, white space removed.  The reader's blocks must say the same
//! (sub-property 3): the C01 predicates otherwise take the reader's output as the note's content
//! and cannot see a loss inside the reader.
use crate::gal::*;
use crate::lib_stage;
use crate::libgen;
use crate::PropModule;
use liwe::graph::Graph;
use liwe::model::config::MarkdownOptions;
use liwe::model::Key;
use pulldown_cmark::{Event, Parser, Tag, TagEnd};
use std::panic::{catch_unwind, AssertUnwindSafe};
use serde_json::Value;

pub fn module() -> PropModule {
    PropModule {
        coq_module: "Check_RR",
        runner: "Check_RR.run_C01o",
        generate: |r, t| libgen::generate_mixed(r, t, 320),
        execute,
        label: libgen::label,
    }
}

fn squeeze(s: &str, out: &mut String) {
    out.extend(s.chars().filter(|c| !matches!(c, ' ' | '\n' | '\r' | '\t')));
}

pub fn said(text: &str) -> String {
    let mut out = String::new();
    let (mut html, mut meta) = (false, false);
    for ev in Parser::new_ext(text, crate::c13::reader_options()) {
        match ev {
            Event::Start(Tag::HtmlBlock) => html = true,
            Event::End(TagEnd::HtmlBlock) => html = false,
            Event::Start(Tag::MetadataBlock(_)) => meta = true,
            Event::End(TagEnd::MetadataBlock(_)) => meta = false,
            // every link and image destination, where the link starts
            Event::Start(Tag::Link { dest_url, .. }) | Event::Start(Tag::Image { dest_url, .. }) => {
                out.push('\u{1}');
                squeeze(&dest_url, &mut out);
                out.push('\u{2}');
            }
            Event::Text(t) if !html && !meta => squeeze(&t, &mut out),
            Event::Code(t) | Event::InlineHtml(t) => squeeze(&t, &mut out),
            _ => {}
        }
    }
    out
}

/// per note: its formatted text in the freshly imported library, and again after every OTHER note of
/// the library was re-submitted with the text it already has (`update_key`, what a didSave of an
/// unchanged buffer does); `None` where a step panicked
fn settled(v: &Value, notes: &[(String, String)]) -> Vec<String> {
    let ext = v["ext"].as_str().unwrap_or("");
    let options = MarkdownOptions { refs_extension: ext.to_string() };
    let imported = catch_unwind(AssertUnwindSafe(|| Graph::import(&lib_stage::state_of(notes), options.clone())));
    notes
        .iter()
        .map(|(name, _)| {
            let key = Key::name(name);
            let pair = imported.as_ref().ok().and_then(|g| {
                catch_unwind(AssertUnwindSafe(|| {
                    let before = g.to_markdown(&key);
                    let mut g2 = g.clone();
                    for (other, text) in notes {
                        if other != name {
                            g2.update_key(Key::name(other), text);
                        }
                    }
                    (before, g2.to_markdown(&key))
                }))
                .ok()
            });
            gpair(&gstr(name), &gopt(pair.map(|(a, b)| gpair(&gstr(&a), &gstr(&b)))))
        })
        .collect()
}

pub fn execute(v: &Value) -> String {
    let lc = lib_stage::execute(v);
    let notes = lib_stage::notes_of(v);
    let said: Vec<String> = notes.iter().map(|(name, text)| gpair(&gstr(name), &gstr(&said(text)))).collect();
    format!("(({}, {}), {})", lc, glist(&said), glist(&settled(v, &notes)))
}
