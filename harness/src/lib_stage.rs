//! The library stage: import a set of notes with the real code and dump every intermediate
//! the Coq side compares with its model or evaluates property predicates on:
//! reader blocks, arena, titles, collected trees, formatted text, line->node map,
//! re-read blocks of the formatted text and the text formatted a second time.
use crate::dump;
use crate::gal::*;
use liwe::graph::{Graph, GraphContext};
use liwe::markdown::MarkdownReader;
use liwe::graph::Reader;
use liwe::model::config::MarkdownOptions;
use liwe::model::graph::GraphBlock;
use liwe::model::projector::Projector;
use liwe::model::{Key, State};
use serde_json::Value;
use std::panic::{catch_unwind, AssertUnwindSafe};

pub fn gres(r: Result<String, String>) -> String {
    match r {
        Ok(x) => format!("(Ok {})", x),
        Err(e) => format!("(Panic {})", gstr(&e)),
    }
}

pub fn panic_msg(e: Box<dyn std::any::Any + Send>) -> String {
    if let Some(s) = e.downcast_ref::<&str>() {
        s.to_string()
    } else if let Some(s) = e.downcast_ref::<String>() {
        s.clone()
    } else {
        "panic".to_string()
    }
}

fn table_texts(blocks: &[GraphBlock], options: &MarkdownOptions, out: &mut Vec<String>) {
    for b in blocks {
        match b {
            GraphBlock::Table(_, _, _) => {
                let t = b.to_markdown(options);
                out.push(t.strip_suffix('\n').unwrap_or(&t).to_string());
            }
            GraphBlock::BlockQuote(bs) => table_texts(bs, options, out),
            GraphBlock::OrderedList(items) | GraphBlock::BulletList(items) => {
                for it in items {
                    table_texts(it, options, out);
                }
            }
            _ => {}
        }
    }
}

/// table oracle for one note of a graph: texts of its tables in rendering order
pub fn tables_of(graph: &Graph, key: &Key, options: &MarkdownOptions) -> Vec<String> {
    tables_of_at(graph, key, &key.parent(), options)
}

/// the same for the note written into the directory `dir` (a rename moves a note: the note links in
/// its table cells are written relative to the new place)
pub fn tables_of_at(graph: &Graph, key: &Key, dir: &str, options: &MarkdownOptions) -> Vec<String> {
    let mut out = vec![];
    let r = catch_unwind(AssertUnwindSafe(|| {
        let tree = (&*graph).collect(key);
        let blocks = Projector::project(tree.iter(), dir);
        let mut v = vec![];
        table_texts(&blocks, options, &mut v);
        v
    }));
    if let Ok(v) = r {
        out = v;
    }
    out
}

pub fn state_of(notes: &[(String, String)]) -> State {
    notes.iter().cloned().collect()
}

pub fn notes_of(v: &Value) -> Vec<(String, String)> {
    v["notes"]
        .as_array()
        .unwrap()
        .iter()
        .map(|n| (n[0].as_str().unwrap().to_string(), n[1].as_str().unwrap().to_string()))
        .collect()
}

pub fn line_count(text: &str) -> usize {
    text.split('\n').count() + 1
}


/// `note_in` term: reader output of one note (input of the model) + table oracle
pub fn note_in_term(name: &str, text: &str, graph: Option<&Graph>, options: &MarkdownOptions) -> String {
    let doc = catch_unwind(AssertUnwindSafe(|| MarkdownReader::new().document(text)));
    let (meta, blocks) = match doc {
        Ok(d) => (d.metadata.clone(), Ok(dump::dblocks(&d.blocks))),
        Err(e) => (None, Err(panic_msg(e))),
    };
    let tables = match graph {
        Some(g) => tables_of(g, &Key::name(name), options),
        None => vec![],
    };
    gapp(
        "NI",
        &[gstr(name), gopt(meta.map(|m| gstr(&m))), gres(blocks), glist(&tables.iter().map(|t| gstr(t)).collect::<Vec<_>>())],
    )
}

/// `note_obs` term: everything observed about one note of a graph
pub fn note_obs_term(graph: &Graph, key: &Key, text: &str, options: &MarkdownOptions) -> String {
    let key = key.clone();
    let tree = catch_unwind(AssertUnwindSafe(|| (&*graph).collect(&key))).map(|t| dump::tree(&t)).map_err(panic_msg);
    let text1 = catch_unwind(AssertUnwindSafe(|| graph.to_markdown(&key))).map_err(panic_msg);
    let lines = line_count(text);
    let mut map = vec![];
    for line in 0..lines {
        let id = catch_unwind(AssertUnwindSafe(|| (&*graph).get_node_id_at(&key, line))).unwrap_or(None);
        map.push(gopt(id.map(gn)));
    }
    // re-read of the formatted text, and the second formatting (update_key in the same library)
    let (reread, text2, tables2) = match &text1 {
        Ok(t1) => {
            let rr = catch_unwind(AssertUnwindSafe(|| MarkdownReader::new().document(t1)));
            let rr_blocks = match rr {
                Ok(d) => Ok(format!("({}, {})", gopt(d.metadata.clone().map(|m| gstr(&m))), dump::dblocks(&d.blocks))),
                Err(e) => Err(panic_msg(e)),
            };
            let second = catch_unwind(AssertUnwindSafe(|| {
                let mut g2 = graph.clone();
                g2.update_key(key.clone(), t1);
                let t2 = g2.to_markdown(&key);
                let tb = tables_of(&g2, &key, &options);
                (t2, tb)
            }));
            match second {
                Ok((t2, tb)) => (rr_blocks, Ok(gstr(&t2)), tb),
                Err(e) => (rr_blocks, Err(panic_msg(e)), vec![]),
            }
        }
        Err(_) => (Err("no text".to_string()), Err("no text".to_string()), vec![]),
    };
    gapp(
        "NO",
        &[
            gstr(&key.to_string()),
            gres(tree),
            gres(text1.map(|t| gstr(&t))),
            glist(&map),
            gres(reread),
            gres(text2),
            glist(&tables2.iter().map(|t| gstr(t)).collect::<Vec<_>>()),
        ],
    )
}

/// Gallina `libcase` for the JSON input {"ext":..., "notes":[[name,text],...]}
pub fn execute(v: &Value) -> String {
    let ext = v["ext"].as_str().unwrap_or("");
    let notes = notes_of(v);
    let options = MarkdownOptions { refs_extension: ext.to_string() };
    let state = state_of(&notes);

    // reader output per note (input of the model), in import order (sorted by state name)
    let mut sorted = notes.clone();
    sorted.sort_by(|a, b| a.0.cmp(&b.0));

    let imported = catch_unwind(AssertUnwindSafe(|| Graph::import(&state, options.clone())));

    let mut notes_in = vec![];
    for (name, text) in &sorted {
        notes_in.push(note_in_term(name, text, imported.as_ref().ok(), &options));
    }

    let (arena, titles, notes_obs) = match &imported {
        Err(_) => ("(Panic \"import\")".to_string(), "[]".to_string(), "[]".to_string()),
        Ok(graph) => {
            let arena = format!("(Ok {})", dump::arena(graph));
            let mut titles = vec![];
            let mut obs = vec![];
            for (name, text) in &sorted {
                let key = Key::name(name);
                titles.push(gpair(&gstr(&key.to_string()), &gopt(graph.get_key_title(&key).map(|t| gstr(&t)))));
                obs.push(note_obs_term(graph, &key, text, &options));
            }
            (arena, glist(&titles), glist(&obs))
        }
    };
    gapp("LC", &[gstr(ext), glist(&notes_in), arena, titles, notes_obs])
}
