//! C18 — outline paths and search.  Libraries of notes with arbitrary heading trees,
//! block-reference DAGs and cycles (also from inside lists, quotes and before the first
//! heading), duplicate and empty headings, sometimes more than 100 headings, are loaded into
//! the real `Database`; dumped, besides the library case of lib_stage.rs: the arena, the
//! collected tree of every note, `Graph::paths()`, `Graph::search_paths()`,
//! `Database::global_search(q)` for several queries together with the fuzzy score of every
//! search path (oracle), the names `Server::handle_workspace_symbols` returns, and all of it
//! again after each step of a short history of `update_document` calls (dropping references,
//! dropping headings, re-submitting) — the path where stale index entries show.
use crate::dump;
use crate::gal::*;
use crate::gen;
use crate::lib_stage::{self, gres, notes_of, panic_msg, state_of};
use crate::rng::Rng;
use crate::PropModule;
use fuzzy_matcher::{skim::SkimMatcherV2, FuzzyMatcher};
use liwe::database::Database;
use liwe::graph::{GraphContext, Reader, SearchPath};
use liwe::markdown::MarkdownReader;
use liwe::model::config::MarkdownOptions;
use liwe::model::Key;
use serde_json::{json, Value};
use std::panic::{catch_unwind, AssertUnwindSafe};

pub fn module() -> PropModule {
    PropModule { coq_module: "Check_C18", runner: "Check_C18.run_C18", generate, execute, label }
}

// ------------------------------------------------------------------ generator

const TITLES: &[&str] = &["alpha", "beta", "alpha beta", "gamma", "note", "", "x", "alpha", "long title here", "b", "*em* text", "z `code`"];

fn ref_line(rng: &mut Rng, targets: &[String]) -> String {
    let t = if targets.is_empty() || rng.chance(1, 10) { "missing".to_string() } else { rng.pick(targets).clone() };
    match rng.below(4) {
        0 => format!("[[{}]]", t),
        _ => format!("[{}]({})", gen::word(rng, false), t),
    }
}

fn body(rng: &mut Rng, targets: &[String], out: &mut Vec<String>) {
    for _ in 0..rng.below(3) {
        match rng.below(12) {
            0..=3 => out.push(ref_line(rng, targets)),
            4 => out.push(format!("text {} and [inline]({})", gen::word(rng, false), if targets.is_empty() { "q".to_string() } else { rng.pick(targets).clone() })),
            5 => out.push(format!("- item {}\n\n  {}\n- second", gen::word(rng, false), ref_line(rng, targets))),
            6 => out.push(format!("> ## quoted {}\n>\n> {}", gen::word(rng, false), ref_line(rng, targets))),
            7 => out.push("| t |\n|---|\n| c |".to_string()),
            8 => out.push(format!("1. ## heading in item\n\n   {}", ref_line(rng, targets))),
            _ => out.push(format!("{} {}", gen::word(rng, false), gen::word(rng, false))),
        }
    }
}

fn note_text(rng: &mut Rng, targets: &[String], headings: usize) -> String {
    let mut out: Vec<String> = vec![];
    // blocks before the first heading (a reference here sits directly below the document)
    if rng.chance(1, 4) {
        if rng.chance(1, 2) { out.push(ref_line(rng, targets)); } else { out.push(gen::word(rng, false)); }
    }
    let mut level = 1usize;
    for i in 0..headings {
        level = match rng.below(5) {
            0 => 1,
            1 => (level + 1).min(6),
            2 => level.saturating_sub(1).max(1),
            3 => rng.range(1, 4),
            _ => level,
        };
        if i == 0 && rng.chance(3, 4) { level = 1; }
        let t = rng.pick(TITLES);
        out.push(format!("{} {}", "#".repeat(level), t).trim_end().to_string());
        body(rng, targets, &mut out);
    }
    let mut s = out.join("\n\n");
    s.push('\n');
    s
}

fn drop_ref_lines(text: &str) -> String {
    // remove the paragraphs that are a lone link (block references)
    text.split("\n\n")
        .filter(|p| {
            let p = p.trim();
            !((p.starts_with("[[") && p.ends_with("]]") && !p.contains(' ')) || (p.starts_with('[') && p.ends_with(')') && !p.contains(' ') && p.matches("](").count() == 1))
        })
        .collect::<Vec<_>>()
        .join("\n\n")
}

fn generate(rng: &mut Rng, thorough: bool) -> Vec<Value> {
    let n = if thorough { 1500 } else { 100 };
    let mut out = vec![];
    for i in 0..n {
        let nested = i % 3 == 1;
        let nkeys = rng.range(1, 5);
        let keys = crate::c05::keys_for(rng, nkeys, nested);
        // shape of the reference graph: forward only (a DAG), anything (cycles, self loops), none
        let shape = match i % 4 { 0 => "dag", 3 => "few", _ => "any" };
        let big = i % 25 == 7;
        let mut notes = vec![];
        for (ix, k) in keys.iter().enumerate() {
            let dir = gen::dir_of(k);
            let cand: Vec<String> = match shape {
                "dag" => keys[ix + 1..].to_vec(),
                "few" => if rng.chance(1, 3) { keys.clone() } else { vec![] },
                _ => keys.clone(),
            };
            let targets = crate::c05::targets_from(&cand, &dir);
            let headings = if big && ix == 0 { rng.range(101, 115) } else { rng.below(6) };
            notes.push((k.clone(), note_text(rng, &targets, headings)));
        }
        // a short history
        let mut updates = vec![];
        let mut texts: Vec<(String, String)> = notes.clone();
        for _ in 0..(if big { 0 } else { rng.below(3) }) {
            let ix = rng.below(texts.len());
            let (name, old) = texts[ix].clone();
            let new = match rng.below(5) {
                0 | 1 => drop_ref_lines(&old),
                2 => old.splitn(2, "\n\n").nth(1).unwrap_or("").to_string(),
                3 => old.clone(),
                _ => {
                    let dir = gen::dir_of(&name);
                    let targets = crate::c05::targets_from(&keys, &dir);
                    format!("{}\n{}\n", old, ref_line(rng, &targets))
                }
            };
            texts[ix].1 = new.clone();
            updates.push(json!([name, new]));
        }
        let mut queries = vec!["".to_string(), rng.pick(&["alpha", "beta", "al", "x", "ab", "note"]).to_string()];
        if rng.chance(1, 2) { queries.push("zzz".into()); }
        if rng.chance(1, 3) { queries.push("alpha beta".into()); }
        let kind = format!("{}{}{}", shape, if nested { "-nested" } else { "" }, if big { "-big" } else { "" });
        out.push(json!({"ext": "", "kind": kind, "notes": notes.iter().map(|n| json!([n.0, n.1])).collect::<Vec<_>>(), "updates": updates, "queries": queries}));
    }
    out
}

fn label(v: &Value) -> String {
    let n = v["notes"].as_array().map(|a| a.len()).unwrap_or(0);
    let u = v["updates"].as_array().map(|a| a.len()).unwrap_or(0);
    format!("{}:notes={}:updates={}", v["kind"].as_str().unwrap_or("?"), n, u)
}

// ------------------------------------------------------------------ observations

fn ids(v: &[u64]) -> String {
    glist(&v.iter().map(|i| gn(*i)).collect::<Vec<_>>())
}

fn spath(p: &SearchPath) -> String {
    gapp("SP", &[gstr(&p.search_text), gn(p.node_rank as u64), gstr(&p.key.to_string()), gbool(p.root), gn(p.line as u64), ids(&p.path.ids())])
}

fn observe(db: &Database, queries: &[String]) -> String {
    let graph = db.graph();
    let arena = catch_unwind(AssertUnwindSafe(|| dump::arena(graph))).map_err(panic_msg);
    let mut keys: Vec<Key> = graph.keys();
    keys.sort();
    let trees: Vec<String> = keys
        .iter()
        .map(|k| {
            let t = catch_unwind(AssertUnwindSafe(|| graph.collect(k))).map(|t| dump::tree(&t)).map_err(panic_msg);
            gpair(&gstr(&k.to_string()), &gres(t))
        })
        .collect();
    let paths = catch_unwind(AssertUnwindSafe(|| graph.paths())).map(|ps| glist(&ps.iter().map(|p| ids(&p.ids())).collect::<Vec<_>>())).map_err(panic_msg);
    let search = catch_unwind(AssertUnwindSafe(|| graph.search_paths()));
    let matcher = SkimMatcherV2::default();
    let mut qs = vec![];
    for q in queries {
        let scores = match &search {
            Ok(sp) => glist(&sp.iter().map(|p| { let sc = matcher.fuzzy_match(&p.search_text, q).unwrap_or(0); format!("(zs {} {}%N)", sc < 0, sc.unsigned_abs()) }).collect::<Vec<_>>()),
            Err(_) => "[]".to_string(),
        };
        let found = catch_unwind(AssertUnwindSafe(|| db.global_search(q))).map(|r| glist(&r.iter().map(spath).collect::<Vec<_>>())).map_err(panic_msg);
        qs.push(format!("({}, {}, {})", gstr(q), scores, gres(found)));
    }
    let search_s = match search {
        Ok(sp) => Ok(glist(&sp.iter().map(spath).collect::<Vec<_>>())),
        Err(e) => Err(panic_msg(e)),
    };
    gapp("PO", &[gres(arena), glist(&trees), gres(paths), gres(search_s), glist(&qs)])
}

fn symbols(notes: &[(String, String)], queries: &[String]) -> String {
    use iwes::router::server::Server;
    use iwes::router::{LspClient, ServerConfig};
    use lsp_types::*;
    let r = catch_unwind(AssertUnwindSafe(|| {
        let server = Server::new(ServerConfig {
            base_path: "/basepath".to_string(),
            state: state_of(notes),
            sequential_ids: Some(true),
            configuration: liwe::model::config::Configuration::default(),
            lsp_client: LspClient::Unknown,
        });
        let mut out = vec![];
        for q in queries {
            let resp = catch_unwind(AssertUnwindSafe(|| {
                server.handle_workspace_symbols(WorkspaceSymbolParams {
                    query: q.clone(),
                    work_done_progress_params: WorkDoneProgressParams { work_done_token: None },
                    partial_result_params: PartialResultParams { partial_result_token: None },
                })
            }));
            let names = match resp {
                Ok(WorkspaceSymbolResponse::Flat(v)) => Ok(glist(&v.iter().map(|s| gstr(&s.name)).collect::<Vec<_>>())),
                Ok(WorkspaceSymbolResponse::Nested(v)) => Ok(glist(&v.iter().map(|s| gstr(&s.name)).collect::<Vec<_>>())),
                Err(e) => Err(panic_msg(e)),
            };
            out.push(gpair(&gstr(q), &gres(names)));
        }
        glist(&out)
    }));
    r.unwrap_or_else(|_| "[]".to_string())
}

pub fn execute(v: &Value) -> String {
    let ext = v["ext"].as_str().unwrap_or("");
    let notes = notes_of(v);
    let options = MarkdownOptions { refs_extension: ext.to_string() };
    let queries: Vec<String> = v["queries"].as_array().map(|a| a.iter().map(|q| q.as_str().unwrap_or("").to_string()).collect()).unwrap_or_else(|| vec!["".to_string()]);
    let updates: Vec<(String, String)> = v["updates"]
        .as_array()
        .map(|a| a.iter().map(|u| (u[0].as_str().unwrap().to_string(), u[1].as_str().unwrap().to_string())).collect())
        .unwrap_or_default();
    let lib = lib_stage::execute(v);

    let db = catch_unwind(AssertUnwindSafe(|| Database::new(state_of(&notes), true, options.clone())));
    let (import_obs, ups) = match db {
        Err(_) => ("(Panic \"import\")".to_string(), "[]".to_string()),
        Ok(mut db) => {
            let io = format!("(Ok {})", observe(&db, &queries));
            let mut ups = vec![];
            let mut dead = false;
            for (name, text) in &updates {
                if dead { break; }
                let doc = catch_unwind(AssertUnwindSafe(|| MarkdownReader::new().document(text)));
                let (meta, blocks) = match doc {
                    Ok(d) => (d.metadata.clone(), Ok(dump::dblocks(&d.blocks))),
                    Err(e) => (None, Err(panic_msg(e))),
                };
                let key = Key::name(name);
                let r = catch_unwind(AssertUnwindSafe(|| db.update_document(key.clone(), text.clone())));
                let obs = match r {
                    Ok(()) => format!("(Ok {})", observe(&db, &queries)),
                    Err(e) => { dead = true; format!("(Panic {})", gstr(&panic_msg(e))) }
                };
                ups.push(gapp("UP", &[gstr(name), gopt(meta.map(|m| gstr(&m))), gres(blocks), obs]));
            }
            (io, glist(&ups))
        }
    };
    gapp("C18", &[lib, import_obs, ups, symbols(&notes, &queries)])
}
