//! C10 — list / section conversions (kinds 5-7 of actions.rs) on generated libraries.
use crate::actions;
use crate::PropModule;
use serde_json::Value;

pub fn module() -> PropModule {
    PropModule {
        coq_module: "Check_C10",
        runner: "Check_C10.run_C10",
        generate: |r, t| actions::generate(r, t, 80),
        execute: |v: &Value| actions::execute(v, &[5, 6, 7]),
        label: actions::label,
    }
}
