//! The history stage (C04, C20): a library is loaded into a real `Database`, then a sequence
//! of document updates / insertions is applied.  After every step the harness dumps
//!  * the arena (every slot), the key -> root map, titles, the collected tree, formatted text
//!    and line map of every note (compared with the model's run of the same history), and
//!  * an id-free view of everything the server answers (texts, titles, block at each line,
//!    backlinks as (owner, line) sets, outline paths as heading texts, search results),
//!    once from the incrementally updated database and once from a database freshly built
//!    from the current texts (C04 compares the two).
//!
//! Patch graphs (C20, sub-properties 4-7 and stages 10-11): after the last step the harness builds
//! patch graphs the way the server does - `graph.new_patch()` + `build_key_from_iter(key,
//! TreeIter::new(&tree))` (server.rs:277-279, 461-481; action.rs / command.rs through `context.patch()`)
//! - from (1) the collected tree of every note, (2) for every block reference of a note to an
//! existing note, the tree with the reference replaced by the referenced note's collected tree
//! (`Tree::replace`, the tree of "Inline list", action.rs:772-774), (3) the same with the referenced
//! note's blocks wrapped into a quote ("Inline quote", action.rs:615-623), (4) the hand-made trees
//! of the input (`"trees"`, the JSON trees of c17.rs), each under catch_unwind, and dumps the patch
//! arena (every slot) and its key map.
use crate::dump;
use crate::gal::*;
use crate::gen;
use crate::lib_stage::{gres, line_count, note_in_term, panic_msg, state_of, tables_of};
use crate::rng::Rng;
use liwe::database::Database;
use liwe::graph::{Graph, GraphContext};
use liwe::model::config::MarkdownOptions;
use liwe::model::node::{Node, NodePointer};
use liwe::model::tree::{Tree, TreeIter};
use liwe::model::Key;
use serde_json::{json, Value};
use std::collections::BTreeMap;
use std::panic::{catch_unwind, AssertUnwindSafe};

fn keys_sorted(graph: &Graph) -> Vec<Key> {
    let mut ks = graph.keys();
    ks.sort();
    ks
}

fn kind_tag(graph: &Graph, id: u64) -> String {
    use liwe::graph::graph_node::GraphNode::*;
    match graph.graph_node(id) {
        Empty => "empty".into(),
        Document(_) => "doc".into(),
        Section(_) => "section".into(),
        Quote(_) => "quote".into(),
        BulletList(_) => "blist".into(),
        OrderedList(_) => "olist".into(),
        Leaf(_) => "leaf".into(),
        Raw(_) => "raw".into(),
        HorizontalRule(_) => "rule".into(),
        Reference(_) => "ref".into(),
        Table(_) => "table".into(),
    }
}

fn guard<T>(f: impl FnOnce() -> T) -> Result<T, String> {
    catch_unwind(AssertUnwindSafe(f)).map_err(panic_msg)
}

fn strs(v: &[String]) -> String {
    glist(&v.iter().map(|s| gstr(s)).collect::<Vec<_>>())
}

/// what the server answers, without node ids
pub fn idfree(db: &Database, texts: &BTreeMap<String, String>) -> String {
    let graph = db.graph();
    let keys = keys_sorted(graph);
    let mut t_texts = vec![];
    let mut t_titles = vec![];
    let mut t_lines = vec![];
    let mut t_back = vec![];
    for key in &keys {
        let ks = key.to_string();
        let text = guard(|| graph.to_markdown(key));
        t_texts.push(gpair(&gstr(&ks), &gres(text.map(|t| gstr(&t)))));
        t_titles.push(gpair(&gstr(&ks), &gopt(graph.get_key_title(key).map(|t| gstr(&t)))));
        let n = texts.get(&ks).map(|t| line_count(t)).unwrap_or(1);
        let mut lines = vec![];
        for line in 0..n {
            let s = guard(|| match graph.get_node_id_at(key, line) {
                Some(id) => format!("{}|{}", kind_tag(graph, id), graph.get_text(id)),
                None => String::new(),
            })
            .unwrap_or_else(|e| format!("PANIC {}", e));
            lines.push(s);
        }
        t_lines.push(gpair(&gstr(&ks), &strs(&lines)));
        let locate = |ids: Vec<u64>| -> Vec<String> {
            let mut v: Vec<String> = ids
                .iter()
                .map(|id| {
                    guard(|| format!("{}:{}", graph.key_of(*id), graph.node_line_number(*id).map(|l| l as i64).unwrap_or(-1)))
                        .unwrap_or_else(|e| format!("PANIC {}", e))
                })
                .collect();
            v.sort();
            v
        };
        let block = guard(|| graph.get_block_references_to(key)).map(&locate).unwrap_or_else(|e| vec![format!("PANIC {}", e)]);
        let inline = guard(|| graph.get_inline_references_to(key)).map(&locate).unwrap_or_else(|e| vec![format!("PANIC {}", e)]);
        t_back.push(format!("({}, {}, {})", gstr(&ks), strs(&block), strs(&inline)));
    }
    let paths = guard(|| {
        let mut v: Vec<String> = graph
            .paths()
            .iter()
            .map(|p| p.ids().iter().map(|id| format!("{}#{}", graph.key_of(*id), graph.get_text(*id).trim())).collect::<Vec<_>>().join(" > "))
            .collect();
        v.sort();
        v
    })
    .unwrap_or_else(|e| vec![format!("PANIC {}", e)]);
    let search = guard(|| {
        db.global_search("")
            .iter()
            .map(|p| {
                // the chain of texts a client is shown for the hit (graph.rs path_texts) is part of the observation
                let chain = p.path.ids().iter().map(|id| graph.get_text(*id).trim().to_string()).collect::<Vec<_>>().join(" > ");
                format!("{}|{}|{}|{}|{}|{}", p.node_rank, p.key, p.line, p.root, p.search_text, chain)
            })
            .collect::<Vec<_>>()
    })
    .unwrap_or_else(|e| vec![format!("PANIC {}", e)]);
    gapp("IF", &[glist(&t_texts), glist(&t_titles), glist(&t_lines), glist(&t_back), strs(&paths), strs(&search)])
}

/// model-comparable dump of the whole graph: arena, keys, titles, per note tree/text/map + table oracle
fn graph_dump(graph: &Graph, texts: &BTreeMap<String, String>, options: &MarkdownOptions) -> (String, String, String, String, String) {
    let arena = format!("(Ok {})", dump::arena(graph));
    let keys = keys_sorted(graph);
    let mut kmap = vec![];
    let mut titles = vec![];
    let mut notes = vec![];
    let mut tables = vec![];
    for key in &keys {
        let ks = key.to_string();
        kmap.push(gpair(&gstr(&ks), &gn(graph.get_node_id(key).unwrap_or(0))));
        titles.push(gpair(&gstr(&ks), &gopt(graph.get_key_title(key).map(|t| gstr(&t)))));
        let tree = guard(|| graph.collect(key)).map(|t| dump::tree(&t));
        let text1 = guard(|| graph.to_markdown(key));
        let n = texts.get(&ks).map(|t| line_count(t)).unwrap_or(1);
        let mut map = vec![];
        for line in 0..n {
            let id = guard(|| graph.get_node_id_at(key, line)).unwrap_or(None);
            map.push(gopt(id.map(gn)));
        }
        notes.push(gapp("HN", &[gstr(&ks), gres(tree), gres(text1.map(|t| gstr(&t))), glist(&map)]));
        let tb = tables_of(graph, key, options);
        tables.push(gpair(&gstr(&ks), &strs(&tb)));
    }
    (arena, glist(&kmap), glist(&titles), glist(&notes), glist(&tables))
}

pub const FORMAT_OP: &str = "\u{1}FORMAT";

// ------------------------------------------------------------------ patch graphs

/// at most this many block references of one note are inlined
const MAX_INLINED: usize = 3;

/// `graph.new_patch()` + `build_key_from_iter(key, TreeIter::new(tree))`; the patch arena (every slot)
/// and the patch's key map, or the panic message of the builder.  `src` says how the tree was made
/// (Check_Patch.patch_src): the trees made from collected trees are not printed again, the Coq side
/// rebuilds them from the collected trees of the last state (TreeOps.replace = Tree::replace).
fn patch_obs(graph: &Graph, src: String, key: &Key, tree: &Tree) -> String {
    let built = catch_unwind(AssertUnwindSafe(|| {
        let mut patch = graph.new_patch();
        patch.build_key_from_iter(key, TreeIter::new(tree));
        patch
    }))
    .map_err(panic_msg);
    let (arena, kmap) = match &built {
        Ok(p) => {
            let kmap: Vec<String> = keys_sorted(p).iter().map(|k| gpair(&gstr(&k.to_string()), &gn(p.get_node_id(k).unwrap_or(0)))).collect();
            (Ok(dump::arena(p)), glist(&kmap))
        }
        Err(e) => (Err(e.clone()), "[]".to_string()),
    };
    gapp("PO", &[gstr(&key.to_string()), src, gres(arena), kmap])
}

/// the block references of a tree that carry an id: (node id, key)
fn block_refs(t: &Tree, out: &mut Vec<(u64, Key)>) {
    if let (Some(id), Node::Reference(r)) = (t.id, &t.node) {
        out.push((id, r.key.clone()));
    }
    for c in &t.children {
        block_refs(c, out);
    }
}

fn patches(graph: &Graph, v: &Value) -> Vec<String> {
    let mut out = vec![];
    let mut quoted = false;
    for key in keys_sorted(graph) {
        let tree = match guard(|| graph.collect(&key)) {
            Ok(t) => t,
            Err(_) => continue, // stage 4 of the state and C03 own a panicking collect
        };
        out.push(patch_obs(graph, "PS_collected".to_string(), &key, &tree));
        let mut refs = vec![];
        block_refs(&tree, &mut refs);
        for (id, rkey) in refs.into_iter().filter(|(_, k)| graph.get_node_id(k).is_some()).take(MAX_INLINED) {
            let inl = match guard(|| graph.collect(&rkey)) {
                Ok(t) => t,
                Err(_) => continue,
            };
            // "Inline list" (action.rs:772-774)
            if let Ok(t2) = guard(|| tree.replace(id, &inl)) {
                out.push(patch_obs(graph, gapp("PS_inlined", &[gn(id), gstr(&rkey.to_string())]), &key, &t2));
            }
            // "Inline quote" (action.rs:615-623): once per history
            if !quoted {
                quoted = true;
                let quote = Tree { id: None, node: Node::Quote(), children: inl.children.clone() };
                if let Ok(t3) = guard(|| tree.replace(id, &quote)) {
                    out.push(patch_obs(graph, gapp("PS_quoted", &[gn(id), gstr(&rkey.to_string())]), &key, &t3));
                }
            }
        }
    }
    for p in v["trees"].as_array().cloned().unwrap_or_default() {
        let key: Key = p[0].as_str().unwrap_or("t").to_string().into();
        let tree = crate::c17::jtree(&p[1]);
        out.push(patch_obs(graph, gapp("PS_tree", &[dump::tree(&tree)]), &key, &tree));
    }
    out
}

pub fn execute(v: &Value) -> String {
    let ext = v["ext"].as_str().unwrap_or("");
    let options = MarkdownOptions { refs_extension: ext.to_string() };
    let notes = crate::lib_stage::notes_of(v);
    let ops: Vec<(String, String)> = v["ops"]
        .as_array()
        .map(|a| a.iter().map(|n| (n[0].as_str().unwrap().to_string(), n[1].as_str().unwrap().to_string())).collect())
        .unwrap_or_default();
    let mut sorted = notes.clone();
    sorted.sort_by(|a, b| a.0.cmp(&b.0));
    let mut texts: BTreeMap<String, String> = BTreeMap::new();
    for (n, t) in &sorted {
        texts.insert(Key::name(n).to_string(), t.clone());
    }

    let db0 = guard(|| Database::new(state_of(&notes), true, options.clone()));
    let mut db = match db0 {
        Ok(db) => db,
        Err(_) => {
            let notes_in: Vec<String> = sorted.iter().map(|(n, t)| note_in_term(n, t, None, &options)).collect();
            return gapp("HC", &[gstr(ext), glist(&notes_in), "(Panic \"import\")".into(), "[]".into(), "[]".into(), "[]".into(), "[]".into(), "[]".into(), "[]".into()]);
        }
    };
    let notes_in: Vec<String> = sorted.iter().map(|(n, t)| note_in_term(n, t, None, &options)).collect();
    let (arena0, keys0, titles0, hn0, tables0) = graph_dump(db.graph(), &texts, &options);

    let mut steps = vec![];
    // the graph of the last state that was dumped: what the patch graphs are built from
    let mut last: Graph = db.graph().clone();
    for (name, text) in &ops {
        let key = Key::name(name);
        // the marker op "format": the note is re-submitted as the server itself writes it (what an editor
        // sends after applying textDocument/formatting) - same graph, other line layout
        let formatted: String;
        let text = if text == FORMAT_OP {
            formatted = guard(|| db.graph().to_markdown(&key)).unwrap_or_default();
            &formatted
        } else {
            text
        };
        let step_in = note_in_term(name, text, None, &options);
        // the graph update alone first (on a copy), so that a panic of the builder is told apart
        // from a panic of the path enumeration that `update_document` runs afterwards
        let g2 = catch_unwind(AssertUnwindSafe(|| {
            let mut g = db.graph().clone();
            g.update_key(key.clone(), text);
            g
        }));
        let g2 = match g2 {
            Ok(g) => g,
            Err(_) => {
                // the builder panicked; the real database would be left half updated: the history ends here
                steps.push(gapp("ST", &[step_in, "(Panic \"update\")".into(), "[]".into(), "[]".into(), "[]".into(), "[]".into(), "None".into(), "None".into()]));
                break;
            }
        };
        let r = catch_unwind(AssertUnwindSafe(|| db.update_document(key.clone(), text.clone())));
        if r.is_err() {
            // graph updated, but the search paths could not be recomputed: dump the graph, no answers
            texts.insert(key.to_string(), text.clone());
            let (arena, kmap, titles, hn, tables) = graph_dump(&g2, &texts, &options);
            let fresh_db = guard(|| Database::new(texts.iter().map(|(k, t)| (k.clone(), t.clone())).collect(), true, options.clone()));
            let fresh = match &fresh_db {
                Ok(f) => format!("(Some {})", idfree(f, &texts)),
                Err(_) => "None".to_string(),
            };
            steps.push(gapp("ST", &[step_in, arena, kmap, titles, hn, tables, "None".into(), fresh]));
            last = g2;
            break;
        }
        texts.insert(key.to_string(), text.clone());
        let (arena, kmap, titles, hn, tables) = graph_dump(db.graph(), &texts, &options);
        let inc = idfree(&db, &texts);
        let fresh_db = guard(|| Database::new(texts.iter().map(|(k, t)| (k.clone(), t.clone())).collect(), true, options.clone()));
        let fresh = match &fresh_db {
            Ok(f) => format!("(Some {})", idfree(f, &texts)),
            Err(_) => "None".to_string(),
        };
        steps.push(gapp("ST", &[step_in, arena, kmap, titles, hn, tables, format!("(Some {})", inc), fresh]));
        last = db.graph().clone();
    }
    let pos = patches(&last, v);
    gapp("HC", &[gstr(ext), glist(&notes_in), arena0, keys0, titles0, hn0, tables0, glist(&steps), glist(&pos)])
}

// ------------------------------------------------------------------ generator

fn mutate(rng: &mut Rng, old: &str, other_targets: &[String], hostile: bool) -> String {
    let lines: Vec<&str> = old.split('\n').collect();
    match rng.below(9) {
        0 => {
            // drop the first line (usually the title heading)
            lines.iter().skip(1).cloned().collect::<Vec<_>>().join("\n")
        }
        1 => {
            // drop a random line
            if lines.len() <= 1 { return String::new(); }
            let k = rng.below(lines.len());
            lines.iter().enumerate().filter(|(i, _)| *i != k).map(|(_, l)| *l).collect::<Vec<_>>().join("\n")
        }
        2 => {
            // append a block reference
            let t = if other_targets.is_empty() { "missing".to_string() } else { rng.pick(other_targets).clone() };
            format!("{}\n\n[ref text]({})\n", old.trim_end(), t)
        }
        3 => {
            // put a table in front of the last block
            let t = if other_targets.is_empty() { "missing".to_string() } else { rng.pick(other_targets).clone() };
            format!("{}\n\n| h |\n|---|\n| c |\n\ntail [in]({})\n\n[blk]({})\n", old.trim_end(), t, t)
        }
        4 => String::new(),
        5 => old.to_string(),
        6 => {
            // new title
            format!("# {} {}\n\n{}", gen::word(rng, false), gen::word(rng, false), lines.iter().skip(1).cloned().collect::<Vec<_>>().join("\n"))
        }
        7 => {
            // drop every line that holds a link
            lines.iter().filter(|l| !l.contains("](") && !l.contains("[[")).cloned().collect::<Vec<_>>().join("\n")
        }
        _ => {
            let ctx = gen::Ctx { targets: other_targets, hostile, max_depth: 2 };
            let doc = gen::document(rng, &ctx);
            gen::document_src(&doc, &gen::Style::plain(), None)
        }
    }
}

pub fn generate(rng: &mut Rng, thorough: bool, n_quick: usize) -> Vec<Value> {
    let n = if thorough { n_quick * 12 } else { n_quick };
    let mut out = vec![];
    for i in 0..n {
        let hostile = i % 5 == 4;
        let nested = i % 2 == 1;
        let lib = gen::library(rng, hostile, 3, nested);
        let ext = if rng.chance(1, 4) { ".md" } else { "" };
        let mut cur: BTreeMap<String, String> = lib.iter().map(|n| (n.name.clone(), n.text.clone())).collect();
        let pool: Vec<&str> = if nested { gen::KEYS[..13].to_vec() } else { vec!["a", "b", "c", "n1", "n2", "k", "m", "заметки"] };
        let steps = rng.range(1, if thorough { 8 } else { 5 });
        let mut ops = vec![];
        for _ in 0..steps {
            let existing: Vec<String> = cur.keys().cloned().collect();
            let name = if rng.chance(1, 5) { rng.pick(&pool).to_string() } else { rng.pick(&existing).clone() };
            let dir = gen::dir_of(&name);
            let targets: Vec<String> = existing.iter().map(|t| gen::rel_url(t, &dir)).filter(|u| !u.is_empty()).collect();
            let old = cur.get(&name).cloned().unwrap_or_default();
            let text = if cur.contains_key(&name) { mutate(rng, &old, &targets, hostile) } else {
                let ctx = gen::Ctx { targets: &targets, hostile, max_depth: 2 };
                gen::document_src(&gen::document(rng, &ctx), &gen::Style::plain(), None)
            };
            cur.insert(name.clone(), text.clone());
            ops.push(json!([name, text]));
        }
        if out.len() % 3 == 0 {
            if let Some(first) = lib.first() { ops.push(json!([first.name, FORMAT_OP])); }
        }
        out.push(json!({"ext": ext, "kind": if hostile { "hostile" } else if nested { "nested" } else { "flat" },
                        "notes": lib.iter().map(|n| json!([n.name, n.text])).collect::<Vec<_>>(), "ops": ops}));
    }
    // hand-made trees for the patch-graph stage: two per second history (drawn after the histories, so
    // that the histories are the stream they were before): the tree shapes of c17.rs (valid, leaves with
    // children, inner Document nodes, roots that are not documents) and trees as an inline refactoring
    // builds them (a Document node as a later sibling of a container / leaf)
    for (i, h) in out.iter_mut().enumerate() {
        if i % 2 == 0 {
            let mode = crate::c17::TREE_MODES[(i / 2) % crate::c17::TREE_MODES.len()];
            let t1 = crate::c17::gen_tree(rng, mode);
            let t2 = inlined_tree(rng);
            h["trees"] = json!([["t", t1], [if i % 4 == 0 { "d/t" } else { "t" }, t2]]);
        }
    }
    out
}

/// a tree of the shape `collect(key).replace(reference_id, &collect(inline_key))` has: a Document node
/// among the children of a section / list item / quote, after 0-2 siblings (containers with and
/// without children, leaves) and before 0-1 siblings
fn inlined_tree(rng: &mut Rng) -> Value {
    use crate::c17::jnode;
    let mut count = 0;
    let mut leaf = |what: &str| { count += 1; jnode("leaf", &format!("{}{}", what, count), vec![]) };
    let mut before = vec![];
    for _ in 0..rng.range(0, 2) {
        let b = match rng.below(6) {
            0 => leaf("p"),
            1 => jnode("bl", "", vec![jnode("sec", "i1", vec![]), jnode("sec", "i2", vec![leaf("p")])]),
            2 => jnode("ol", "", vec![jnode("sec", "i1", vec![])]),
            3 => jnode("quote", "", vec![leaf("q")]),
            4 => jnode("sec", "sub", vec![leaf("p")]),
            _ => jnode(*rng.pick(&["sec", "quote", "bl"]), "empty", vec![]),
        };
        before.push(b);
    }
    let mut inner = vec![];
    for _ in 0..rng.range(0, 2) {
        inner.push(if rng.chance(1, 2) { jnode("sec", "inl", vec![leaf("p")]) } else { leaf("p") });
    }
    let mut kids = before;
    let mut doc = jnode("doc", "inl", inner);
    if rng.chance(1, 2) { doc["id"] = json!(rng.below(50)); }
    kids.push(doc);
    if rng.chance(1, 2) { kids.push(leaf("after")); }
    let holder = match rng.below(3) {
        0 => jnode("sec", "holder", kids),
        1 => jnode("bl", "", vec![jnode("sec", "item", kids)]),
        _ => jnode("quote", "", kids),
    };
    jnode("doc", "t", vec![jnode("sec", "title", vec![holder])])
}

pub fn label(v: &Value) -> String {
    let n = v["notes"].as_array().map(|a| a.len()).unwrap_or(0);
    let o = v["ops"].as_array().map(|a| a.len()).unwrap_or(0);
    format!("{}:notes={}:ops={}", v["kind"].as_str().unwrap_or("?"), n, o)
}
