//! In-memory LSP client for the real `iwes` router plus the scheduling controller of the
//! cfg-guarded hooks (`iwes::router::verif_hooks`): start a server, send messages, wait for
//! hook events, collect what the server sends back.  Every wait has a deadline and gives up
//! early when the loop thread is gone, so a run terminates whatever the server does.
use iwes::router::verif_hooks::{self as hooks, Event, Point};
use iwes::{main_loop, ServerParams};
use liwe::model::config::{Configuration, Model};
use lsp_server::{Connection, Message, Notification, Request, RequestId};
use serde_json::Value;
use std::collections::{HashMap, VecDeque};
use std::sync::mpsc::{self, Receiver};
use std::sync::Mutex;
use std::thread::JoinHandle;
use std::time::{Duration, Instant};

pub const BASE: &str = "/base";

/// panics seen by the panic hook: the request the panicking thread was working on (None: not a
/// request worker, e.g. the loop thread)
static PANICS: Mutex<Vec<Option<String>>> = Mutex::new(Vec::new());

static HANGS: std::sync::atomic::AtomicUsize = std::sync::atomic::AtomicUsize::new(0);

pub fn install_panic_hook() {
    std::panic::set_hook(Box::new(|info| {
        let who = hooks::current_request();
        // development aid: VERIF_PANIC_TRACE=1 prints every panic with the request it belongs to
        if std::env::var("VERIF_PANIC_TRACE").is_ok() {
            eprintln!("PANIC {:?}: {}", who, info);
        }
        if let Ok(mut p) = PANICS.lock() {
            p.push(who);
        }
    }));
}

pub fn take_panics() -> Vec<Option<String>> {
    PANICS.lock().map(|mut p| std::mem::take(&mut *p)).unwrap_or_default()
}

pub fn configuration(with_model: bool) -> Configuration {
    let mut c = Configuration::default();
    if with_model {
        // a "default" model without an API key: `generate` runs offline and returns ""
        c.models.insert("default".to_string(), Model::default());
    }
    c
}

pub struct Srv {
    pub client: Connection,
    events: Receiver<Event>,
    buffered: VecDeque<Event>,
    loop_thread: Option<JoinHandle<bool>>,
    /// everything the server sent, in arrival order
    pub received: Vec<Message>,
    /// the transport has a writer thread (see `start_on`): a message handed over is on its way for a moment
    rendezvous: bool,
}

pub fn uri(key: &str) -> String {
    format!("file://{}/{}.md", BASE, key)
}

impl Srv {
    pub fn start(docs: &[(String, String)], config: Configuration, stepping: bool) -> Srv {
        Srv::start_on(docs, config, stepping, false)
    }

    /// `rendezvous`: the transport has the shape of `Connection::stdio()` - the server hands every
    /// outgoing message to a writer thread over a channel WITHOUT a buffer (`bounded(0)`), and the
    /// writer is busy for a moment with every message it writes.  (`Connection::memory()` has
    /// unbounded channels, on which a send can never find the other side busy.)
    pub fn start_on(docs: &[(String, String)], config: Configuration, stepping: bool, rendezvous: bool) -> Srv {
        let (tx, rx) = mpsc::channel();
        hooks::install(tx, stepping);
        let (connection, client) = if rendezvous {
            let (to_writer, writer_in) = crossbeam_channel::bounded::<Message>(0);
            let (written, client_in) = crossbeam_channel::unbounded::<Message>();
            let (client_out, server_in) = crossbeam_channel::unbounded::<Message>();
            let _ = std::thread::Builder::new().name("writer".into()).spawn(move || {
                while let Ok(m) = writer_in.recv() {
                    std::thread::sleep(Duration::from_millis(2)); // "writing"
                    if written.send(m).is_err() { break; }
                }
            });
            (Connection { sender: to_writer, receiver: server_in }, Connection { sender: client_out, receiver: client_in })
        } else {
            Connection::memory()
        };
        let state: HashMap<String, String> = docs.iter().cloned().collect();
        let loop_thread = std::thread::Builder::new()
            .name("iwes-loop".into())
            .spawn(move || {
                main_loop(
                    connection,
                    ServerParams {
                        state: Some(state),
                        client_name: None,
                        sequential_ids: Some(true),
                        base_path: BASE.to_string(),
                        configuration: config,
                    },
                )
                .is_ok()
            })
            .ok();
        Srv { client, events: rx, buffered: VecDeque::new(), loop_thread, received: vec![], rendezvous }
    }

    pub fn loop_alive(&self) -> bool {
        self.loop_thread.as_ref().map(|h| !h.is_finished()).unwrap_or(false)
    }

    pub fn request(&self, id: i32, method: &str, params: Value) {
        let _ = self.client.sender.send(Message::Request(Request {
            id: RequestId::from(id),
            method: method.to_string(),
            params,
        }));
    }

    pub fn notify(&self, method: &str, params: Value) {
        let _ = self
            .client
            .sender
            .send(Message::Notification(Notification { method: method.to_string(), params }));
    }

    /// First event satisfying `want`, from the buffer or the channel, within `timeout`.
    /// `need_loop`: give up as soon as the loop thread is gone (nothing will be spawned any more).
    pub fn wait_event(&mut self, timeout: Duration, need_loop: bool, want: impl Fn(&Event) -> bool) -> Option<Event> {
        if let Some(i) = self.buffered.iter().position(|e| want(e)) {
            return self.buffered.remove(i);
        }
        let deadline = Instant::now() + timeout;
        loop {
            let now = Instant::now();
            if now >= deadline {
                return None;
            }
            let slice = (deadline - now).min(Duration::from_millis(20));
            match self.events.recv_timeout(slice) {
                Ok(e) => {
                    if want(&e) {
                        return Some(e);
                    }
                    self.buffered.push_back(e);
                }
                Err(mpsc::RecvTimeoutError::Timeout) => {
                    if need_loop && !self.loop_alive() {
                        // one last look: the event may have been sent just before the thread ended
                        while let Ok(e) = self.events.try_recv() {
                            if want(&e) {
                                return Some(e);
                            }
                            self.buffered.push_back(e);
                        }
                        return None;
                    }
                }
                Err(mpsc::RecvTimeoutError::Disconnected) => return None,
            }
        }
    }

    pub fn wait_at(&mut self, id: i32, points: &[Point], timeout: Duration) -> Option<(Point, bool)> {
        let key = id.to_string();
        let pts = points.to_vec();
        match self.wait_event(timeout, false, move |e| matches!(e, Event::At { point, id, .. } if *id == key && pts.contains(point))) {
            Some(Event::At { point, panicking, .. }) => Some((point, panicking)),
            _ => None,
        }
    }

    pub fn wait_gone(&mut self, id: i32, timeout: Duration) -> bool {
        let key = id.to_string();
        // the worker may not have been spawned yet: that needs the loop
        self.wait_event(timeout, true, move |e| matches!(e, Event::Gone { id } if *id == key)).is_some()
    }

    pub fn wait_note_begin(&mut self, timeout: Duration) -> bool {
        self.wait_event(timeout, true, |e| matches!(e, Event::NoteBegin { .. })).is_some()
    }

    /// Some(panicked) when the loop thread has finished handling the notification
    pub fn wait_note_end(&mut self, timeout: Duration) -> Option<bool> {
        match self.wait_event(timeout, true, |e| matches!(e, Event::NoteEnd { .. })) {
            Some(Event::NoteEnd { panicked, .. }) => Some(panicked),
            _ => None,
        }
    }

    pub fn permit(&self, id: i32, point: Point) {
        hooks::permit(&id.to_string(), point);
    }

    pub fn free_run(&self) {
        hooks::free_run();
    }

    /// Move everything the server has sent so far into `received`.
    pub fn drain(&mut self) {
        if self.rendezvous {
            // what the writer thread still holds arrives within its per-message delay: read until the
            // line has been silent for a while
            while let Ok(m) = self.client.receiver.recv_timeout(Duration::from_millis(25)) {
                self.received.push(m);
            }
        }
        while let Ok(m) = self.client.receiver.try_recv() {
            self.received.push(m);
        }
    }

    /// End the session: send `exit`, or (`send_exit` = false) let the client go away, and wait
    /// for the loop thread.  0 = `run` returned Err, 1 = Ok, 2 = still running, 3 = it panicked.
    pub fn finish(&mut self, send_exit: bool, timeout: Duration) -> u64 {
        hooks::free_run();
        if send_exit {
            self.notify("exit", Value::Null);
        } else {
            let (tx, _rx) = crossbeam_channel::unbounded();
            drop(std::mem::replace(&mut self.client.sender, tx));
        }
        // a loop that does not end costs the full time limit: after three of them stop waiting long
        let timeout = if HANGS.load(std::sync::atomic::Ordering::Relaxed) >= 3 { timeout.min(Duration::from_millis(50)) } else { timeout };
        let deadline = Instant::now() + timeout;
        let h = match self.loop_thread.take() {
            Some(h) => h,
            None => return 3,
        };
        while !h.is_finished() {
            if Instant::now() >= deadline {
                hooks::uninstall();
                HANGS.fetch_add(1, std::sync::atomic::Ordering::Relaxed);
                return 2; // the thread is left behind; the process ends anyway
            }
            std::thread::sleep(Duration::from_micros(200));
        }
        self.drain();
        hooks::uninstall();
        match h.join() {
            Ok(true) => 1,
            Ok(false) => 0,
            Err(_) => 3,
        }
    }
}

/// responses to request `id` in `received`: 0 = result null, 1 = result, 2 = error
pub fn response_kinds(received: &[Message], id: i32) -> Vec<u64> {
    let rid = RequestId::from(id);
    received
        .iter()
        .filter_map(|m| match m {
            Message::Response(r) if r.id == rid => Some(if r.error.is_some() {
                2
            } else if matches!(r.result, Some(Value::Null) | None) {
                0
            } else {
                1
            }),
            _ => None,
        })
        .collect()
}

pub fn responses_to<'a>(received: &'a [Message], id: i32) -> Vec<&'a lsp_server::Response> {
    let rid = RequestId::from(id);
    received.iter().filter_map(|m| match m { Message::Response(r) if r.id == rid => Some(r), _ => None }).collect()
}
