//! C12 — every request gets exactly one response and the server keeps serving.
//! Drives the real `iwes` router over an in-memory LSP connection: every advertised method
//! (and unknown ones) with generated well-typed parameters, in random sequences, a liveness
//! probe after each.  The hooks run in free-running mode: they only report when a worker has
//! ended (so no response can still be on its way) and which request a panic belongs to.
//! For the tie with the handler model (Server.v) every request is also emitted as a
//! `Server.request` term, every answer as a summary of its content, and every state in which
//! requests are sent as the real reader's output for its notes (section "the model's view").
use crate::dump;
use crate::gal::*;
use crate::lib_stage::tables_of;
use crate::rng::Rng;
use crate::router_drv::{self as drv, Srv};
use crate::PropModule;
use fuzzy_matcher::{skim::SkimMatcherV2, FuzzyMatcher};
use iwes::router::server::Server;
use iwes::router::{LspClient, ServerConfig};
use liwe::graph::{Graph, Reader};
use liwe::markdown::MarkdownReader;
use liwe::model::config::{BlockAction, Configuration, Context, MarkdownOptions, Model};
use liwe::model::{Key, State};
use lsp_server::Message;
use lsp_types::Url;
use serde::de::DeserializeOwned;
use serde_json::{json, Value};
use std::panic::{catch_unwind, AssertUnwindSafe};
use std::time::Duration;

pub fn module() -> PropModule {
    PropModule { coq_module: "Check_C12", runner: "Check_C12.run_C12", generate, execute, label }
}

const WORKER_LIMIT: Duration = Duration::from_secs(8);

/// name of the environment variable the "remote" model reads its API key from (set by the harness)
const REMOTE_KEY_ENV: &str = "IWE_VERIF_KEY";

/// The configuration of the remote-action scenario: a custom action `custom.rewrite` whose model has
/// an API key (so `llm_query` really calls the endpoint) and lives at a closed local port: the
/// connection is refused at once, no network is needed.  On the tree as it is the failed `send()`
/// panics in the worker and the request is answered with InternalError; whatever the handler does
/// with the failure, the request must be answered and the worker must end.
fn remote_configuration() -> Configuration {
    let mut c = Configuration::default();
    c.models.insert(
        "remote".to_string(),
        Model { api_key_env: REMOTE_KEY_ENV.to_string(), base_url: "http://127.0.0.1:9".to_string(), name: "m".to_string(), ..Default::default() },
    );
    c.actions.insert(
        "rewrite".to_string(),
        BlockAction { title: "Rewrite".to_string(), model: "remote".to_string(), prompt_template: "Rewrite the marked block.\n\n{{context}}\n".to_string(), context: Context::Document },
    );
    c
}

fn std_docs() -> Vec<(String, String)> {
    [
        ("1", "# one\n\n[two](2)\n\ntext [two](2) and [gone](zz)\n\n## sub\n\nbody\n\n- item a\n- item b\n"),
        ("2", "# two\n\n- a\n- b\n\n[one](1)\n"),
        ("d/3", "# three\n\n[one](../1)\n\n[x](1)\n\n1.  first\n2.  second\n"),
        ("4", "[two](2)\n\nparagraph without a heading\n"),
        ("5", "# five\n\n> quote\n\n``` rust\ncode\n```\n\n| a | b |\n|---|---|\n| 1 | 2 |\n\n[two](2)\n\n[nowhere](missing)\n"),
        ("prompt", "# prompt note\n\nsummarise\n"),
    ]
    .iter()
    .map(|(k, v)| (k.to_string(), v.to_string()))
    .collect()
}

const URIS: &[(&str, &str)] = &[
    ("file:///base/1.md", "in"),
    ("file:///base/2.md", "in"),
    ("file:///base/d/3.md", "in"),
    ("file:///base/4.md", "in"),
    ("file:///base/5.md", "in"),
    ("file:///base/zzz.md", "unknown"),
    ("file:///base/d/nope.md", "unknown"),
    ("file:///other/1.md", "outside"),
    ("file:///1.md", "outside"),
    ("file:///base/a%20b.md", "unknown"),
    ("file:///base/", "outside"),
    ("untitled:Untitled-1", "outside"),
];

const KINDS: &[&str] = &[
    "refactor.extract.section",
    "refactor.extract.subsections",
    "refactor.rewrite.list.type",
    "refactor.rewrite.list.section",
    "refactor.inline.reference.section",
    "refactor.inline.reference.quote",
    "refactor.rewrite.section.list",
    "refactor.extract.list",
    "refactor.inline.reference.list",
    "refactor",
    "quickfix",
    "custom.none",
];

fn pick_uri(rng: &mut Rng) -> (&'static str, &'static str) {
    // mostly inside the library
    if rng.chance(3, 5) { URIS[rng.below(5)] } else { *rng.pick(URIS) }
}

fn pos(rng: &mut Rng) -> (Value, &'static str) {
    match rng.below(10) {
        0..=5 => (json!({"line": rng.below(12), "character": rng.below(12)}), "on"),
        6..=7 => (json!({"line": rng.range(12, 40), "character": rng.below(200)}), "past"),
        8 => (json!({"line": rng.below(12), "character": 4000000000u64}), "past"),
        _ => (json!({"line": 4294967295u64, "character": 0}), "past"),
    }
}

fn range(rng: &mut Rng) -> (Value, &'static str) {
    let (p, t) = pos(rng);
    if rng.chance(3, 4) {
        (json!({"start": p, "end": p}), t)
    } else {
        let (q, _) = pos(rng);
        (json!({"start": p, "end": q}), "range")
    }
}

fn td(u: &str) -> Value {
    json!({ "uri": u })
}

/// one request: (method, params, tag)
fn gen_request(rng: &mut Rng) -> (String, Value, String) {
    let (u, ut) = pick_uri(rng);
    let (p, pt) = pos(rng);
    let m = rng.below(19);
    match m {
        0 => ("textDocument/inlayHint".into(), json!({"textDocument": td(u), "range": range(rng).0}), format!("inlayHint:{}", ut)),
        1 => {
            let r = range(rng).0;
            ("textDocument/inlineValues".into(), json!({"textDocument": td(u), "range": r, "context": {"frameId": 0, "stoppedLocation": r}}), format!("inlineValues:{}", ut))
        }
        2 => ("textDocument/documentSymbol".into(), json!({"textDocument": td(u)}), format!("documentSymbol:{}", ut)),
        3 => ("textDocument/definition".into(), json!({"textDocument": td(u), "position": p}), format!("definition:{}:{}", ut, pt)),
        4 => {
            let q = *rng.pick(&["", "one", "two", "zz", "•", "a b", "\u{1F600}"]);
            ("workspace/symbol".into(), json!({"query": q}), "symbol".into())
        }
        5 => ("textDocument/completion".into(), json!({"textDocument": td(u), "position": p}), format!("completion:{}", ut)),
        6 => ("completionItem/resolve".into(), json!({"label": "x", "data": rng.below(5)}), "completionResolve".into()),
        7 | 8 => {
            let (r, rt) = range(rng);
            let mut ctx = json!({"diagnostics": []});
            if rng.chance(1, 2) {
                let n = rng.range(1, 3);
                let only: Vec<&str> = (0..n).map(|_| *rng.pick(KINDS)).collect();
                ctx["only"] = json!(only);
            }
            ("textDocument/codeAction".into(), json!({"textDocument": td(u), "range": r, "context": ctx}), format!("codeAction:{}:{}", ut, rt))
        }
        9 | 10 | 11 => {
            let kind = *rng.pick(KINDS);
            let (data, dt): (Value, &str) = match rng.below(10) {
                0..=5 => (json!(rng.below(45)), "id"),
                6 => (json!(1000000 + rng.below(1000)), "absurd"),
                7 => (json!(-1), "absurd"),
                8 => (json!("7"), "absurd"),
                _ => (Value::Null, "absurd"),
            };
            let mut a = json!({"title": "t", "kind": kind, "data": data});
            if rng.chance(1, 12) { a.as_object_mut().unwrap().remove("kind"); }
            if dt == "absurd" && rng.chance(1, 3) { a.as_object_mut().unwrap().remove("data"); }
            ("codeAction/resolve".into(), a, format!("resolve:{}:{}", dt, if kind.starts_with("refactor.") { "known-kind" } else { "other-kind" }))
        }
        12 => ("textDocument/formatting".into(), json!({"textDocument": td(u), "options": {"tabSize": 2, "insertSpaces": true}}), format!("formatting:{}", ut)),
        13 => ("textDocument/references".into(), json!({"textDocument": td(u), "position": p, "context": {"includeDeclaration": rng.chance(1, 2)}}), format!("references:{}", ut)),
        14 => ("textDocument/prepareRename".into(), json!({"textDocument": td(u), "position": p}), format!("prepareRename:{}:{}", ut, pt)),
        15 => {
            let name = *rng.pick(&["new", "2", "d/new", "", "1", "x y", "../up"]);
            ("textDocument/rename".into(), json!({"textDocument": td(u), "position": p, "newName": name}), format!("rename:{}:{}", ut, pt))
        }
        16 => {
            let cmd = *rng.pick(&["generate", "generate", "generate", "unknown", ""]);
            let args = match rng.below(6) {
                0 => json!([]),
                1 => json!([{"new_key": "n"}]),
                2 => json!([{"new_key": "gen", "prompt_key": "nope", "target_key": "1"}]),
                3 => json!([{"new_key": "gen", "prompt_key": "prompt", "target_key": "zzz"}]),
                _ => json!([{"new_key": "gen", "prompt_key": "prompt", "target_key": "1"}]),
            };
            ("workspace/executeCommand".into(), json!({"command": cmd, "arguments": args}), format!("executeCommand:{}", if cmd == "generate" { "generate" } else { "unknown" }))
        }
        17 => {
            let meth = *rng.pick(&["textDocument/hover", "textDocument/documentHighlight", "foo/bar", "", "$/cancelRequest", "initialize"]);
            (meth.into(), json!({"textDocument": td(u), "position": p}), "unknown-method".into())
        }
        _ => {
            // ill-typed parameters for a known method (hostile stream)
            let meth = *rng.pick(&["textDocument/formatting", "textDocument/rename", "codeAction/resolve", "workspace/executeCommand", "workspace/symbol", "textDocument/codeAction"]);
            let params = match rng.below(4) { 0 => Value::Null, 1 => json!({}), 2 => json!([1, 2]), _ => json!({"textDocument": 5}) };
            (meth.into(), params, "ill-typed".into())
        }
    }
}

const TEXTS: &[&str] = &[
    "# one\n",
    "",
    "# changed\n\n[two](2)\n\n- x\n",
    "no heading\n\n[one](1)\n",
    "# t\n\n## a\n\n### b\n\n[gone](nowhere)\n",
    "- only a list\n- [two](2)\n",
];

fn gen_note(rng: &mut Rng) -> Value {
    let (u, _) = pick_uri(rng);
    match rng.below(12) {
        0 => json!({"k": "note", "method": "textDocument/didChange", "params": {"textDocument": {"uri": u, "version": 2}, "contentChanges": []}, "hostile": true}),
        1 => json!({"k": "note", "method": "textDocument/didSave", "params": Value::Null, "hostile": true}),
        2 => json!({"k": "note", "method": "textDocument/didSave", "params": {"textDocument": {"uri": u}}, "hostile": false}),
        3 => json!({"k": "note", "method": "textDocument/didSave", "params": {"textDocument": {"uri": u}, "text": *rng.pick(TEXTS)}, "hostile": false}),
        4 => json!({"k": "note", "method": "initialized", "params": {}, "hostile": false}),
        _ => json!({"k": "note", "method": "textDocument/didChange", "params": {"textDocument": {"uri": u, "version": 2}, "contentChanges": [{"text": *rng.pick(TEXTS)}]}, "hostile": false}),
    }
}

fn req_item(r: (String, Value, String)) -> Value {
    json!({"k": "req", "method": r.0, "params": r.1, "tag": r.2})
}

/// A remote-action case (its own server, configured with `remote_configuration`): a few ordinary
/// requests, the custom action asked for on a line (mostly a paragraph line), the resolve of the
/// offered action - the handler calls the model endpoint, which refuses the connection -, a resolve
/// of the same kind with a stale id, a didChange on another note, an ordinary request.
fn gen_remote(rng: &mut Rng, i: usize) -> Value {
    const PARAS: &[(&str, u64)] = &[("file:///base/1.md", 4), ("file:///base/1.md", 8), ("file:///base/4.md", 2), ("file:///base/5.md", 2), ("file:///base/2.md", 2), ("file:///base/d/3.md", 6)];
    let mut items = vec![];
    for _ in 0..rng.below(3) {
        items.push(req_item(gen_request(rng)));
    }
    let (u, line) = if rng.chance(3, 4) { *rng.pick(PARAS) } else { (URIS[rng.below(5)].0, rng.below(14) as u64) };
    let stale = *rng.pick(&[3u64, 17, 40, 44, 1000000]);
    items.push(json!({"k": "act", "uri": u, "line": line, "only": ["custom.rewrite"], "stale": {"kind": "custom.rewrite", "data": stale}, "tag": "remote"}));
    let other = loop {
        let x = URIS[rng.below(5)].0;
        if x != u { break x; }
    };
    items.push(json!({"k": "note", "method": "textDocument/didChange", "params": {"textDocument": {"uri": other, "version": 2}, "contentChanges": [{"text": *rng.pick(TEXTS)}]}, "hostile": false}));
    items.push(req_item(gen_request(rng)));
    let end = if i % 20 == 17 { "drop" } else { "exit" };
    json!({"model": false, "remote": true, "items": items, "end": end})
}

pub fn generate(rng: &mut Rng, thorough: bool) -> Vec<Value> {
    let mut out = vec![];
    let n = if thorough { 1600 } else { 110 };
    for i in 0..n {
        if i % (if thorough { 40 } else { 10 }) == 7 {
            out.push(gen_remote(rng, i));
            continue;
        }
        let len = rng.range(4, 14);
        let mut items = vec![];
        for _ in 0..len {
            match rng.below(13) {
                0 => items.push(gen_note(rng)),
                12 => {
                    // the code actions offered on a line, then a resolve of (up to three of) them as offered
                    let (u, _) = pick_uri(rng);
                    items.push(json!({"k": "act", "uri": u, "line": rng.below(14), "tag": "offered"}));
                }
                1 => {
                    let k = rng.range(2, 6);
                    let reqs: Vec<Value> = (0..k).map(|_| req_item(gen_request(rng))).collect();
                    items.push(json!({"k": "burst", "reqs": reqs}));
                }
                2 => items.push(json!({"k": "req", "method": "shutdown", "params": Value::Null, "tag": "shutdown"})),
                _ => items.push(req_item(gen_request(rng))),
            }
        }
        let end = if i % 5 == 4 { "drop" } else { "exit" };
        if end == "exit" && rng.chance(1, 2) {
            items.push(json!({"k": "req", "method": "shutdown", "params": Value::Null, "tag": "shutdown"}));
        }
        out.push(json!({"model": rng.chance(1, 2), "rendezvous": i % 3 == 1, "items": items, "end": end}));
    }
    out
}

pub fn label(v: &Value) -> String {
    // coarse features of the sequence (the per-request tags are in the inputs)
    let mut f: Vec<&str> = vec![];
    let add = |x: &'static str, f: &mut Vec<&str>| if !f.contains(&x) { f.push(x) };
    fn req_feature(it: &Value) -> Option<&'static str> {
        let tag = it["tag"].as_str().unwrap_or("");
        if tag.starts_with("executeCommand") { Some("command") }
        else if tag == "shutdown" { Some("shutdown") }
        else if tag == "unknown-method" { Some("unknown-method") }
        else if tag == "ill-typed" { Some("ill-typed") }
        else if tag.contains("unknown") || tag.contains("outside") { Some("foreign-uri") }
        else if tag.contains("absurd") { Some("absurd-id") }
        else { None }
    }
    for it in v["items"].as_array().map(|a| a.as_slice()).unwrap_or(&[]) {
        match it["k"].as_str() {
            Some("req") => { if let Some(x) = req_feature(it) { add(x, &mut f) } }
            Some("act") => add("offered-action", &mut f),
            Some("burst") => {
                add("burst", &mut f);
                for r in it["reqs"].as_array().map(|a| a.as_slice()).unwrap_or(&[]) { if let Some(x) = req_feature(r) { add(x, &mut f) } }
            }
            _ => add(if it["hostile"].as_bool().unwrap_or(false) { "hostile-note" } else { "note" }, &mut f),
        }
    }
    if v["remote"].as_bool().unwrap_or(false) { f.push("remote-action"); }
    if v["rendezvous"].as_bool().unwrap_or(false) { f.push("rendezvous-transport"); }
    f.sort();
    format!("end={} {}", v["end"].as_str().unwrap_or("?"), f.join("+"))
}

fn kind_of(method: &str) -> u64 {
    match method { "workspace/executeCommand" => 1, "shutdown" => 2, _ => 0 }
}

struct Obs { id: i32, kind: u64, panicked: bool, resps: Vec<u64>, done: bool, mreq: String, sum: String }

fn gobs(o: &Obs) -> String {
    gapp("Check_C12.RO", &[gn(o.id as u64), gn(o.kind), gbool(o.panicked), glist(&o.resps.iter().map(|k| format!("{}%N", k)).collect::<Vec<_>>()), gbool(o.done), o.mreq.clone(), o.sum.clone()])
}

// ------------------------------------------------------------------ the model's view (Server.v)
//
// For the request-by-request tie with `Server.handle` / `Server.may_panic` every request is also
// written as a `Server.request` term with its parameters mapped the way the server maps them, every
// answer as a summary of its content, and every state in which requests are sent as what the model
// builds its `sstate` from: the real reader's output for the text of every note (blocks for the
// graph, positioned blocks for the parser) in the order the notifications produced them.

/// line / character / node ids above this are sent to the model as this value: the model's numbers
/// are unary, and every line, column and node id of the (fixed, small) library is far below
/// (the Coq side checks the arena size against it)
const CLAMP: u64 = 10000;

fn cl(n: u64) -> String {
    gn(n.min(CLAMP))
}

/// Actions.akind, in the numbering of Actions.kind_of_nat
const AKINDS: [(&str, &str); 7] = [
    ("refactor.extract.section", "Actions.SectionExtract"),
    ("refactor.extract.subsections", "Actions.SubSectionsExtract"),
    ("refactor.inline.reference.section", "Actions.InlineSection"),
    ("refactor.inline.reference.quote", "Actions.InlineQuote"),
    ("refactor.rewrite.section.list", "Actions.SectionToList"),
    ("refactor.rewrite.list.section", "Actions.ListToSections"),
    ("refactor.rewrite.list.type", "Actions.ListChangeType"),
];

fn akind(k: &str) -> Option<&'static str> {
    AKINDS.iter().find(|(s, _)| *s == k).map(|(_, c)| *c)
}

fn akind_no(k: &str) -> u64 {
    AKINDS.iter().position(|(s, _)| *s == k).map(|i| i as u64 + 1).unwrap_or(0)
}

fn gz(z: i64) -> String {
    format!("(Check_C12.zs {} {}%N)", z < 0, z.unsigned_abs())
}

/// the real reader on one text: (front matter, blocks for the graph, positioned blocks for the parser)
fn read_text(text: &str) -> (String, String, String) {
    match catch_unwind(AssertUnwindSafe(|| {
        let d = MarkdownReader::new().document(text);
        (gopt(d.metadata.clone().map(|m| gstr(&m))), dump::dblocks(&d.blocks), glist(&d.blocks.iter().map(crate::c13::pblock).collect::<Vec<_>>()))
    })) {
        Ok(x) => x,
        // never seen; an empty note makes the model disagree with whatever the server did
        Err(_) => ("None".into(), "[]".into(), "[]".into()),
    }
}

/// A second copy of the library, outside the router: a graph that receives the same updates (table
/// oracle, search texts for the fuzzy-score oracle) and a server with the same base path that is
/// only asked how `BasePath::url_to_key` maps a URI (the `target_key` of its prompt completions).
struct Shadow {
    graph: Graph,
    keyer: Server,
    options: MarkdownOptions,
    /// the server of the case has custom (LLM) actions, which the handler model does not have:
    /// code actions and their resolve are then outside the tie
    custom: bool,
}

impl Shadow {
    fn new(docs: &[(String, String)]) -> Shadow {
        let options = MarkdownOptions::default();
        let state: State = docs.iter().cloned().collect();
        let graph = Graph::import(&state, options.clone());
        let mut configuration = Configuration::default();
        configuration.prompt_key_prefix = Some(String::new());
        let keyer = Server::new(ServerConfig {
            base_path: drv::BASE.to_string(),
            state: [("p".to_string(), String::new())].into_iter().collect(),
            sequential_ids: Some(true),
            lsp_client: LspClient::Unknown,
            configuration,
        });
        Shadow { graph, keyer, options, custom: false }
    }

    /// `uri.to_key(&self.base_path)` of the server
    fn key(&self, uri: &Url) -> Option<String> {
        let params = lsp_types::CompletionParams {
            text_document_position: lsp_types::TextDocumentPositionParams {
                text_document: lsp_types::TextDocumentIdentifier { uri: uri.clone() },
                position: lsp_types::Position::new(0, 0),
            },
            work_done_progress_params: Default::default(),
            partial_result_params: Default::default(),
            context: None,
        };
        let r = catch_unwind(AssertUnwindSafe(|| self.keyer.handle_completion(params))).ok()?;
        let items = match r {
            lsp_types::CompletionResponse::List(l) => l.items,
            lsp_types::CompletionResponse::Array(a) => a,
        };
        items.into_iter().find_map(|it| it.command.and_then(|c| c.arguments).and_then(|a| a.first().and_then(|x| x.get("target_key").and_then(|t| t.as_str()).map(|t| t.to_string()))))
    }

    fn update(&mut self, key: &str, text: &str) {
        let k = Key::from_file_name(key);
        let _ = catch_unwind(AssertUnwindSafe(|| self.graph.update_key(k, text)));
    }

    /// table oracle of the current state: (key, texts of its tables) for the notes that have tables
    fn tables(&self) -> String {
        let mut keys: Vec<Key> = self.graph.keys();
        keys.sort_by(|a, b| a.to_string().cmp(&b.to_string()));
        let mut out = vec![];
        for k in keys {
            let t = tables_of(&self.graph, &k, &self.options);
            if !t.is_empty() {
                out.push(gpair(&gstr(&k.to_string()), &glist(&t.iter().map(|x| gstr(x)).collect::<Vec<_>>())));
            }
        }
        glist(&out)
    }

    /// fuzzy-score oracle for one query: the non-zero scores of the search texts of the current state
    fn scores(&self, q: &str) -> String {
        let matcher = SkimMatcherV2::default();
        let mut out: Vec<(String, i64)> = vec![];
        if let Ok(sp) = catch_unwind(AssertUnwindSafe(|| self.graph.search_paths())) {
            for p in sp {
                let sc = matcher.fuzzy_match(&p.search_text, q).unwrap_or(0);
                if sc != 0 && !out.iter().any(|(t, _)| *t == p.search_text) {
                    out.push((p.search_text.clone(), sc));
                }
            }
        }
        glist(&out.iter().map(|(t, z)| gpair(&gstr(t), &gz(*z))).collect::<Vec<_>>())
    }
}

fn de<T: DeserializeOwned>(v: &Value) -> Option<T> {
    serde_json::from_value::<T>(v.clone()).ok()
}

fn gposn(p: &lsp_types::Position) -> String {
    gpair(&cl(p.line as u64), &cl(p.character as u64))
}

/// the request as the model sees it: `QReq r` (the handler runs on these mapped parameters),
/// `QIllTyped` (the parameters do not deserialise: no handler runs), `QOutside` (shutdown,
/// executeCommand, or a URI the key oracle could not map)
fn model_request(sh: &Shadow, method: &str, params: &Value) -> String {
    use lsp_types::*;
    let q = |r: String| gapp("Check_C12.QReq", &[r]);
    let ill = "Check_C12.QIllTyped".to_string();
    let outside = "Check_C12.QOutside".to_string();
    let keyed = |uri: &Url, f: &dyn Fn(String) -> String| match sh.key(uri) {
        Some(k) => q(f(gstr(&k))),
        None => outside.clone(),
    };
    match method {
        "shutdown" | "workspace/executeCommand" => outside.clone(),
        "textDocument/codeAction" | "codeAction/resolve" if sh.custom => outside.clone(),
        "textDocument/inlayHint" => match de::<InlayHintParams>(params) {
            Some(p) => keyed(&p.text_document.uri, &|k| gapp("Server.RInlayHint", &[k])),
            None => ill,
        },
        "textDocument/inlineValues" => match de::<InlineValueParams>(params) {
            Some(_) => q("Server.RInlineValues".into()),
            None => ill,
        },
        "textDocument/documentSymbol" => match de::<DocumentSymbolParams>(params) {
            Some(p) => keyed(&p.text_document.uri, &|k| gapp("Server.RDocumentSymbol", &[k])),
            None => ill,
        },
        "textDocument/definition" => match de::<GotoDefinitionParams>(params) {
            Some(p) => keyed(&p.text_document_position_params.text_document.uri, &|k| gapp("Server.RDefinition", &[k, gposn(&p.text_document_position_params.position)])),
            None => ill,
        },
        "workspace/symbol" => match de::<WorkspaceSymbolParams>(params) {
            Some(p) => q(gapp("Server.RWorkspaceSymbol", &[gbool(p.query.is_empty()), gapp("Check_C12.score_of", &[sh.scores(&p.query)])])),
            None => ill,
        },
        "textDocument/completion" => match de::<CompletionParams>(params) {
            Some(p) => keyed(&p.text_document_position.text_document.uri, &|k| gapp("Server.RCompletion", &[k])),
            None => ill,
        },
        "completionItem/resolve" => match de::<CompletionItem>(params) {
            Some(_) => q("Server.RCompletionResolve".into()),
            None => ill,
        },
        "textDocument/codeAction" => match de::<CodeActionParams>(params) {
            Some(p) => {
                // `only.contains(kind)`: the entries that name none of the providers never match
                let only = gopt(p.context.only.as_ref().map(|l| glist(&l.iter().filter_map(|k| akind(k.as_str()).map(|s| s.to_string())).collect::<Vec<_>>())));
                keyed(&p.text_document.uri, &|k| gapp("Server.RCodeAction", &[k, cl(p.range.start.line as u64), gbool(p.range.start == p.range.end), only.clone()]))
            }
            None => ill,
        },
        "codeAction/resolve" => match de::<CodeAction>(params) {
            Some(a) => {
                // `data.unwrap().as_u64().unwrap()`, `kind.unwrap()` + `find(..).unwrap()`
                let data = gopt(a.data.as_ref().and_then(|d| d.as_u64()).map(cl));
                let kind = gopt(a.kind.as_ref().and_then(|k| akind(k.as_str())).map(|s| s.to_string()));
                q(gapp("Server.RCodeActionResolve", &[kind, data, "Actions.KSeq".into()]))
            }
            None => ill,
        },
        "textDocument/formatting" => match de::<DocumentFormattingParams>(params) {
            Some(p) => keyed(&p.text_document.uri, &|k| gapp("Server.RFormatting", &[k])),
            None => ill,
        },
        "textDocument/references" => match de::<ReferenceParams>(params) {
            Some(p) => keyed(&p.text_document_position.text_document.uri, &|k| gapp("Server.RReferences", &[k])),
            None => ill,
        },
        "textDocument/prepareRename" => match de::<TextDocumentPositionParams>(params) {
            Some(p) => keyed(&p.text_document.uri, &|k| gapp("Server.RPrepareRename", &[k, gposn(&p.position)])),
            None => ill,
        },
        "textDocument/rename" => match de::<RenameParams>(params) {
            Some(p) => keyed(&p.text_document_position.text_document.uri, &|k| gapp("Server.RRename", &[k, gposn(&p.text_document_position.position), gstr(&p.new_name)])),
            None => ill,
        },
        _ => q("Server.RUnknown".into()),
    }
}

fn juri(v: &Value) -> String {
    gstr(v.as_str().unwrap_or("<no uri>"))
}

fn jn(v: &Value) -> String {
    cl(v.as_u64().unwrap_or(CLAMP))
}

fn jpos(v: &Value) -> String {
    gpair(&jn(&v["line"]), &jn(&v["character"]))
}

/// the operations of a WorkspaceEdit as (constructor for delete, create, full-range edit, insert at 0:0)
fn edit_ops(edit: &Value, names: [&str; 4]) -> String {
    let mut out = vec![];
    for op in edit["documentChanges"].as_array().map(|a| a.as_slice()).unwrap_or(&[]) {
        match op["kind"].as_str() {
            Some("delete") => out.push(gapp(names[0], &[juri(&op["uri"])])),
            Some("create") => out.push(gapp(names[1], &[juri(&op["uri"])])),
            Some(other) => out.push(gapp(names[0], &[gstr(&format!("<{}>", other))])),
            None => {
                let uri = juri(&op["textDocument"]["uri"]);
                let edits = op["edits"].as_array().map(|a| a.as_slice()).unwrap_or(&[]);
                let text = edits.iter().map(|e| e["newText"].as_str().unwrap_or("")).collect::<Vec<_>>().join("");
                let whole = edits.len() == 1 && edits[0]["range"]["end"]["line"].as_u64() == Some(u32::MAX as u64);
                out.push(gapp(if whole { names[2] } else { names[3] }, &[uri, gstr(&text)]));
            }
        }
    }
    glist(&out)
}

/// what the answer carries, per method (`Check_C12.osum`); `ONone`: an error answer / nothing kept
fn summary(method: &str, params: &Value, resp: Option<&lsp_server::Response>) -> String {
    let none = "Check_C12.ONone".to_string();
    let r = match resp {
        Some(r) if r.error.is_none() => r.result.clone().unwrap_or(Value::Null),
        _ => return none,
    };
    let arr = |v: &Value| v.as_array().cloned().unwrap_or_default();
    match method {
        "textDocument/inlayHint" => gapp("Check_C12.OHints", &[glist(&arr(&r).iter().map(|h| gpair(&gstr(h["label"].as_str().unwrap_or("<label>")), &jn(&h["position"]["line"]))).collect::<Vec<_>>())]),
        "textDocument/inlineValues" => gapp("Check_C12.OCount", &[gn(arr(&r).len() as u64)]),
        "textDocument/documentSymbol" => gapp("Check_C12.OSymbols", &[glist(&arr(&r).iter().map(|s| format!("({}, {}, {})", gstr(s["name"].as_str().unwrap_or("")), juri(&s["location"]["uri"]), jn(&s["location"]["range"]["start"]["line"]))).collect::<Vec<_>>())]),
        "textDocument/definition" => gapp("Check_C12.ODefinition", &[gopt(if r.is_array() { None } else { Some(juri(&r["uri"])) })]),
        "workspace/symbol" => gapp("Check_C12.OWsSymbols", &[glist(&arr(&r).iter().map(|s| format!("({}, {}, {}, {})", gstr(s["name"].as_str().unwrap_or("")), gbool(s["kind"].as_u64() == Some(3)), juri(&s["location"]["uri"]), jn(&s["location"]["range"]["start"]["line"]))).collect::<Vec<_>>())]),
        "textDocument/completion" => gapp("Check_C12.OCompletion", &[glist(&arr(&r["items"]).iter().map(|i| gpair(&gstr(i["label"].as_str().unwrap_or("")), &gstr(i["insertText"].as_str().unwrap_or("")))).collect::<Vec<_>>())]),
        "completionItem/resolve" => {
            let same = match (de::<lsp_types::CompletionItem>(params), de::<lsp_types::CompletionItem>(&r)) { (Some(a), Some(b)) => a == b, _ => false };
            gapp("Check_C12.OSame", &[gbool(same)])
        }
        "textDocument/codeAction" => gapp("Check_C12.OActions", &[glist(&arr(&r).iter().map(|a| format!("({}, {}, {})", gn(akind_no(a["kind"].as_str().unwrap_or(""))), gstr(a["title"].as_str().unwrap_or("")), jn(&a["data"]))).collect::<Vec<_>>())]),
        "codeAction/resolve" => gapp("Check_C12.OEdit", &[edit_ops(&r["edit"], ["Server.DDelete", "Server.DCreate", "Server.DEdit", "Server.DEdit"])]),
        "textDocument/formatting" => {
            let a = arr(&r);
            if a.len() == 1 { gapp("Check_C12.OText", &[gstr(a[0]["newText"].as_str().unwrap_or(""))]) } else { none }
        }
        "textDocument/references" => gapp("Check_C12.OLocations", &[glist(&arr(&r).iter().map(|l| gpair(&juri(&l["uri"]), &gpair(&jn(&l["range"]["start"]["line"]), &jn(&l["range"]["end"]["line"])))).collect::<Vec<_>>())]),
        "textDocument/prepareRename" => gapp("Check_C12.OPrepare", &[gopt(if r.is_null() { None } else { Some(gpair(&gpair(&jpos(&r["range"]["start"]), &jpos(&r["range"]["end"])), &gstr(r["placeholder"].as_str().unwrap_or("<placeholder>")))) })]),
        "textDocument/rename" => gapp("Check_C12.ORename", &[
            if r.is_null() { "Rename.RNone".to_string() }
            else if r.get("message").is_some() { gapp("Rename.RErr", &[gstr(r["message"].as_str().unwrap_or(""))]) }
            else { gapp("Rename.REdits", &[edit_ops(&r, ["Rename.OpDelete", "Rename.OpCreate", "Rename.OpOverride", "Rename.OpInsert"])]) }
        ]),
        _ => none,
    }
}

/// the notification as the model sees it (`Server.note`), and whether it changes the library
fn model_note(sh: &mut Shadow, method: &str, params: &Value) -> String {
    use lsp_types::*;
    let change = |sh: &mut Shadow, uri: &Url, text: &str| -> String {
        match sh.key(uri) {
            Some(k) => {
                let (meta, bs, d) = read_text(text);
                sh.update(&k, text);
                gopt(Some(gapp("Server.NChange", &[gstr(&k), meta, bs, d])))
            }
            None => "None".into(),
        }
    };
    match method {
        "textDocument/didChange" => match de::<DidChangeTextDocumentParams>(params) {
            Some(p) => match p.content_changes.first() {
                Some(c) => change(sh, &p.text_document.uri, &c.text),
                None => "(Some Server.NChangeNone)".into(),
            },
            None => "None".into(),
        },
        "textDocument/didSave" => match de::<DidSaveTextDocumentParams>(params) {
            Some(p) => match &p.text {
                Some(t) => change(sh, &p.text_document.uri, t),
                None => "(Some Server.NSaveNoText)".into(),
            },
            None => "None".into(),
        },
        _ => "None".into(),
    }
}

fn canonical(v: &Value) -> String {
    match v {
        Value::Array(a) => {
            let mut xs: Vec<String> = a.iter().map(|x| x.to_string()).collect();
            xs.sort();
            xs.join(",")
        }
        other => other.to_string(),
    }
}

pub fn execute(v: &Value) -> String {
    drv::install_panic_hook();
    let _ = drv::take_panics();
    let docs = std_docs();
    let remote = v["remote"].as_bool().unwrap_or(false);
    if remote {
        // the key of the "remote" model; no proxy between the server and the closed local port
        std::env::set_var(REMOTE_KEY_ENV, "k");
        std::env::set_var("NO_PROXY", "127.0.0.1");
        std::env::set_var("no_proxy", "127.0.0.1");
    }
    let configuration = if remote { remote_configuration() } else { drv::configuration(v["model"].as_bool().unwrap_or(false)) };
    // every third generated session talks to the server over a transport shaped like stdio
    let mut srv = Srv::start_on(&docs, configuration, false, v["rendezvous"].as_bool().unwrap_or(false));
    let mut shadow = Shadow::new(&docs);
    shadow.custom = remote;
    // every request must be answered, every notification applied within WORKER_LIMIT; once that has
    // failed in a case (the case fails anyway) the rest of it is not waited for that long
    let limit = std::cell::Cell::new(WORKER_LIMIT);
    // the start state for the model: the notes in import order (sorted by name), read by the real reader
    let mut sorted = docs.clone();
    sorted.sort_by(|a, b| a.0.cmp(&b.0));
    let notes0 = glist(&sorted.iter().map(|(name, text)| {
        let (meta, bs, d) = read_text(text);
        gapp("Check_C12.SN", &[gstr(name), meta, bs, d])
    }).collect::<Vec<_>>());
    let tables0 = shadow.tables();
    let mut next_id: i32 = 1;
    let mut sent_ids: Vec<i32> = vec![];
    let mut baseline: Option<String> = None;
    let mut items: Vec<String> = vec![];

    // run `reqs` (in flight together), wait for their workers, observe
    let run_reqs = |srv: &mut Srv, shadow: &Shadow, reqs: &[(String, Value)], next_id: &mut i32, sent_ids: &mut Vec<i32>| -> Vec<Obs> {
        let mut ids = vec![];
        let mreqs: Vec<String> = reqs.iter().map(|(m, p)| model_request(shadow, m, p)).collect();
        for (m, p) in reqs {
            let id = *next_id;
            *next_id += 1;
            sent_ids.push(id);
            srv.request(id, m, p.clone());
            ids.push((id, kind_of(m)));
        }
        let mut done = vec![];
        for (id, _) in &ids {
            let d = srv.wait_gone(*id, limit.get());
            if !d { limit.set(Duration::from_secs(1)); }
            done.push(d);
        }
        srv.drain();
        let panics = drv::take_panics();
        ids.iter()
            .zip(done)
            .zip(mreqs.into_iter().zip(reqs.iter()))
            .map(|(((id, kind), d), (mreq, (m, p)))| Obs {
                id: *id,
                kind: *kind,
                panicked: panics.iter().any(|p| p.as_deref() == Some(id.to_string().as_str())),
                resps: drv::response_kinds(&srv.received, *id),
                done: d,
                mreq,
                sum: { let rs = drv::responses_to(&srv.received, *id); summary(m, p, if rs.len() == 1 { Some(rs[0]) } else { None }) },
            })
            .collect()
    };

    let probe = |srv: &mut Srv, shadow: &Shadow, next_id: &mut i32, sent_ids: &mut Vec<i32>, baseline: &mut Option<String>| -> (Obs, Obs, bool) {
        // two probes: the symbol listing (its observation is the one reported) and the code actions
        // offered on the first line of note 2, a request that goes through the action providers and
        // their shared tables; both answers must stay what they were
        let mut os = run_reqs(srv, shadow, &[
            ("workspace/symbol".to_string(), json!({"query": ""})),
            ("textDocument/codeAction".to_string(), json!({"textDocument": {"uri": "file:///base/2.md"}, "range": {"start": {"line": 0, "character": 0}, "end": {"line": 0, "character": 0}}, "context": {"diagnostics": []}})),
        ], next_id, sent_ids);
        let o2 = os.pop().unwrap();
        let o = os.pop().unwrap();
        let actions = drv::responses_to(&srv.received, o2.id).first().map(|r| match (&r.result, &r.error) {
            (Some(v), None) => canonical(v),
            _ => "<error>".to_string(),
        }).unwrap_or_else(|| "<none>".to_string());
        let answer = drv::responses_to(&srv.received, o.id).first().and_then(|r| r.result.as_ref()).map(canonical).map(|a| format!("{}|{}", a, actions));
        let same = match (&*baseline, &answer) {
            (None, Some(a)) => { *baseline = Some(a.clone()); true }
            (Some(b), Some(a)) => a == b,
            (_, None) => false,
        };
        (o, o2, same)
    };

    for it in v["items"].as_array().map(|a| a.as_slice()).unwrap_or(&[]) {
        match it["k"].as_str() {
            Some("req") => {
                let o = run_reqs(&mut srv, &shadow, &[(it["method"].as_str().unwrap_or("").to_string(), it["params"].clone())], &mut next_id, &mut sent_ids).pop().unwrap();
                let (p, p2, same) = probe(&mut srv, &shadow, &mut next_id, &mut sent_ids, &mut baseline);
                items.push(gapp("Check_C12.IReq", &[gobs(&o), gobs(&p), gobs(&p2), gbool(same)]));
            }
            Some("act") => {
                let line = it["line"].as_u64().unwrap_or(0);
                let mut params = json!({"textDocument": td(it["uri"].as_str().unwrap_or("")), "range": {"start": {"line": line, "character": 0}, "end": {"line": line, "character": 0}}, "context": {"diagnostics": []}});
                if !it["only"].is_null() { params["context"]["only"] = it["only"].clone(); }
                let o = run_reqs(&mut srv, &shadow, &[("textDocument/codeAction".to_string(), params)], &mut next_id, &mut sent_ids).pop().unwrap();
                let offered: Vec<Value> = drv::responses_to(&srv.received, o.id).first().and_then(|r| r.result.as_ref()).and_then(|v| v.as_array().cloned()).unwrap_or_default();
                let (p, p2, same) = probe(&mut srv, &shadow, &mut next_id, &mut sent_ids, &mut baseline);
                items.push(gapp("Check_C12.IReq", &[gobs(&o), gobs(&p), gobs(&p2), gbool(same)]));
                let mut resolves: Vec<Value> = offered.into_iter().take(3).collect();
                if it["stale"].is_object() {
                    // the same kind of action with an id that was not offered
                    resolves.push(json!({"title": "t", "kind": it["stale"]["kind"], "data": it["stale"]["data"]}));
                }
                for a in resolves {
                    let o = run_reqs(&mut srv, &shadow, &[("codeAction/resolve".to_string(), a)], &mut next_id, &mut sent_ids).pop().unwrap();
                    let (p, p2, same) = probe(&mut srv, &shadow, &mut next_id, &mut sent_ids, &mut baseline);
                    items.push(gapp("Check_C12.IReq", &[gobs(&o), gobs(&p), gobs(&p2), gbool(same)]));
                }
            }
            Some("burst") => {
                let reqs: Vec<(String, Value)> = it["reqs"].as_array().map(|a| a.as_slice()).unwrap_or(&[]).iter().map(|r| (r["method"].as_str().unwrap_or("").to_string(), r["params"].clone())).collect();
                let os = run_reqs(&mut srv, &shadow, &reqs, &mut next_id, &mut sent_ids);
                let (p, p2, same) = probe(&mut srv, &shadow, &mut next_id, &mut sent_ids, &mut baseline);
                items.push(gapp("Check_C12.IBurst", &[glist(&os.iter().map(gobs).collect::<Vec<_>>()), gobs(&p), gobs(&p2), gbool(same)]));
            }
            _ => {
                srv.notify(it["method"].as_str().unwrap_or(""), it["params"].clone());
                let ended = srv.wait_note_end(limit.get());
                if ended.is_none() { limit.set(Duration::from_secs(1)); }
                let panicked = ended.unwrap_or(true);
                let _ = drv::take_panics();
                baseline = None;
                let note = model_note(&mut shadow, it["method"].as_str().unwrap_or(""), &it["params"]);
                items.push(gapp("Check_C12.INote", &[gbool(it["hostile"].as_bool().unwrap_or(false)), gbool(panicked), note, shadow.tables()]));
            }
        }
    }
    let send_exit = v["end"].as_str() == Some("exit");
    let loop_code = srv.finish(send_exit, Duration::from_secs(5));
    srv.drain();
    let edits = srv.received.iter().filter(|m| matches!(m, Message::Request(r) if r.method == "workspace/applyEdit")).count();
    let stray = srv.received.iter().filter(|m| matches!(m, Message::Response(r) if !sent_ids.iter().any(|i| lsp_server::RequestId::from(*i) == r.id))).count();
    gapp("Check_C12.Case", &[glist(&items), gbool(send_exit), gn(edits as u64), gn(stray as u64), gn(loop_code), notes0, tables0])
}
