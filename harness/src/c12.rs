//! C12 — every request gets exactly one response and the server keeps serving.
//! Drives the real `iwes` router over an in-memory LSP connection: every advertised method
//! (and unknown ones) with generated well-typed parameters, in random sequences, a liveness
//! probe after each.  The hooks run in free-running mode: they only report when a worker has
//! ended (so no response can still be on its way) and which request a panic belongs to.
use crate::gal::*;
use crate::rng::Rng;
use crate::router_drv::{self as drv, Srv};
use crate::PropModule;
use lsp_server::Message;
use serde_json::{json, Value};
use std::time::Duration;

pub fn module() -> PropModule {
    PropModule { coq_module: "Check_C12", runner: "Check_C12.run_C12", generate, execute, label }
}

const WORKER_LIMIT: Duration = Duration::from_secs(8);

fn std_docs() -> Vec<(String, String)> {
    [
        ("1", "# one\n\n[two](2)\n\ntext [two](2) and [gone](zz)\n\n## sub\n\nbody\n\n- item a\n- item b\n"),
        ("2", "# two\n\n- a\n- b\n\n[one](1)\n"),
        ("d/3", "# three\n\n[one](../1)\n\n[x](1)\n\n1.  first\n2.  second\n"),
        ("4", "[two](2)\n\nparagraph without a heading\n"),
        ("5", "# five\n\n> quote\n\n``` rust\ncode\n```\n\n| a | b |\n|---|---|\n| 1 | 2 |\n\n[two](2)\n\n[nowhere](missing)\n"),
        ("prompt", "# prompt note\n\nsummarise\n"),
    ]
    .iter()
    .map(|(k, v)| (k.to_string(), v.to_string()))
    .collect()
}

const URIS: &[(&str, &str)] = &[
    ("file:///base/1.md", "in"),
    ("file:///base/2.md", "in"),
    ("file:///base/d/3.md", "in"),
    ("file:///base/4.md", "in"),
    ("file:///base/5.md", "in"),
    ("file:///base/zzz.md", "unknown"),
    ("file:///base/d/nope.md", "unknown"),
    ("file:///other/1.md", "outside"),
    ("file:///1.md", "outside"),
    ("file:///base/a%20b.md", "unknown"),
    ("file:///base/", "outside"),
    ("untitled:Untitled-1", "outside"),
];

const KINDS: &[&str] = &[
    "refactor.extract.section",
    "refactor.extract.subsections",
    "refactor.rewrite.list.type",
    "refactor.rewrite.list.section",
    "refactor.inline.reference.section",
    "refactor.inline.reference.quote",
    "refactor.rewrite.section.list",
    "refactor.extract.list",
    "refactor.inline.reference.list",
    "refactor",
    "quickfix",
    "custom.none",
];

fn pick_uri(rng: &mut Rng) -> (&'static str, &'static str) {
    // mostly inside the library
    if rng.chance(3, 5) { URIS[rng.below(5)] } else { *rng.pick(URIS) }
}

fn pos(rng: &mut Rng) -> (Value, &'static str) {
    match rng.below(10) {
        0..=5 => (json!({"line": rng.below(12), "character": rng.below(12)}), "on"),
        6..=7 => (json!({"line": rng.range(12, 40), "character": rng.below(200)}), "past"),
        8 => (json!({"line": rng.below(12), "character": 4000000000u64}), "past"),
        _ => (json!({"line": 4294967295u64, "character": 0}), "past"),
    }
}

fn range(rng: &mut Rng) -> (Value, &'static str) {
    let (p, t) = pos(rng);
    if rng.chance(3, 4) {
        (json!({"start": p, "end": p}), t)
    } else {
        let (q, _) = pos(rng);
        (json!({"start": p, "end": q}), "range")
    }
}

fn td(u: &str) -> Value {
    json!({ "uri": u })
}

/// one request: (method, params, tag)
fn gen_request(rng: &mut Rng) -> (String, Value, String) {
    let (u, ut) = pick_uri(rng);
    let (p, pt) = pos(rng);
    let m = rng.below(19);
    match m {
        0 => ("textDocument/inlayHint".into(), json!({"textDocument": td(u), "range": range(rng).0}), format!("inlayHint:{}", ut)),
        1 => {
            let r = range(rng).0;
            ("textDocument/inlineValues".into(), json!({"textDocument": td(u), "range": r, "context": {"frameId": 0, "stoppedLocation": r}}), format!("inlineValues:{}", ut))
        }
        2 => ("textDocument/documentSymbol".into(), json!({"textDocument": td(u)}), format!("documentSymbol:{}", ut)),
        3 => ("textDocument/definition".into(), json!({"textDocument": td(u), "position": p}), format!("definition:{}:{}", ut, pt)),
        4 => {
            let q = *rng.pick(&["", "one", "two", "zz", "•", "a b", "\u{1F600}"]);
            ("workspace/symbol".into(), json!({"query": q}), "symbol".into())
        }
        5 => ("textDocument/completion".into(), json!({"textDocument": td(u), "position": p}), format!("completion:{}", ut)),
        6 => ("completionItem/resolve".into(), json!({"label": "x", "data": rng.below(5)}), "completionResolve".into()),
        7 | 8 => {
            let (r, rt) = range(rng);
            let mut ctx = json!({"diagnostics": []});
            if rng.chance(1, 2) {
                let n = rng.range(1, 3);
                let only: Vec<&str> = (0..n).map(|_| *rng.pick(KINDS)).collect();
                ctx["only"] = json!(only);
            }
            ("textDocument/codeAction".into(), json!({"textDocument": td(u), "range": r, "context": ctx}), format!("codeAction:{}:{}", ut, rt))
        }
        9 | 10 | 11 => {
            let kind = *rng.pick(KINDS);
            let (data, dt): (Value, &str) = match rng.below(10) {
                0..=5 => (json!(rng.below(45)), "id"),
                6 => (json!(1000000 + rng.below(1000)), "absurd"),
                7 => (json!(-1), "absurd"),
                8 => (json!("7"), "absurd"),
                _ => (Value::Null, "absurd"),
            };
            let mut a = json!({"title": "t", "kind": kind, "data": data});
            if rng.chance(1, 12) { a.as_object_mut().unwrap().remove("kind"); }
            if dt == "absurd" && rng.chance(1, 3) { a.as_object_mut().unwrap().remove("data"); }
            ("codeAction/resolve".into(), a, format!("resolve:{}:{}", dt, if kind.starts_with("refactor.") { "known-kind" } else { "other-kind" }))
        }
        12 => ("textDocument/formatting".into(), json!({"textDocument": td(u), "options": {"tabSize": 2, "insertSpaces": true}}), format!("formatting:{}", ut)),
        13 => ("textDocument/references".into(), json!({"textDocument": td(u), "position": p, "context": {"includeDeclaration": rng.chance(1, 2)}}), format!("references:{}", ut)),
        14 => ("textDocument/prepareRename".into(), json!({"textDocument": td(u), "position": p}), format!("prepareRename:{}:{}", ut, pt)),
        15 => {
            let name = *rng.pick(&["new", "2", "d/new", "", "1", "x y", "../up"]);
            ("textDocument/rename".into(), json!({"textDocument": td(u), "position": p, "newName": name}), format!("rename:{}:{}", ut, pt))
        }
        16 => {
            let cmd = *rng.pick(&["generate", "generate", "generate", "unknown", ""]);
            let args = match rng.below(6) {
                0 => json!([]),
                1 => json!([{"new_key": "n"}]),
                2 => json!([{"new_key": "gen", "prompt_key": "nope", "target_key": "1"}]),
                3 => json!([{"new_key": "gen", "prompt_key": "prompt", "target_key": "zzz"}]),
                _ => json!([{"new_key": "gen", "prompt_key": "prompt", "target_key": "1"}]),
            };
            ("workspace/executeCommand".into(), json!({"command": cmd, "arguments": args}), format!("executeCommand:{}", if cmd == "generate" { "generate" } else { "unknown" }))
        }
        17 => {
            let meth = *rng.pick(&["textDocument/hover", "textDocument/documentHighlight", "foo/bar", "", "$/cancelRequest", "initialize"]);
            (meth.into(), json!({"textDocument": td(u), "position": p}), "unknown-method".into())
        }
        _ => {
            // ill-typed parameters for a known method (hostile stream)
            let meth = *rng.pick(&["textDocument/formatting", "textDocument/rename", "codeAction/resolve", "workspace/executeCommand", "workspace/symbol", "textDocument/codeAction"]);
            let params = match rng.below(4) { 0 => Value::Null, 1 => json!({}), 2 => json!([1, 2]), _ => json!({"textDocument": 5}) };
            (meth.into(), params, "ill-typed".into())
        }
    }
}

const TEXTS: &[&str] = &[
    "# one\n",
    "",
    "# changed\n\n[two](2)\n\n- x\n",
    "no heading\n\n[one](1)\n",
    "# t\n\n## a\n\n### b\n\n[gone](nowhere)\n",
    "- only a list\n- [two](2)\n",
];

fn gen_note(rng: &mut Rng) -> Value {
    let (u, _) = pick_uri(rng);
    match rng.below(12) {
        0 => json!({"k": "note", "method": "textDocument/didChange", "params": {"textDocument": {"uri": u, "version": 2}, "contentChanges": []}, "hostile": true}),
        1 => json!({"k": "note", "method": "textDocument/didSave", "params": Value::Null, "hostile": true}),
        2 => json!({"k": "note", "method": "textDocument/didSave", "params": {"textDocument": {"uri": u}}, "hostile": false}),
        3 => json!({"k": "note", "method": "textDocument/didSave", "params": {"textDocument": {"uri": u}, "text": *rng.pick(TEXTS)}, "hostile": false}),
        4 => json!({"k": "note", "method": "initialized", "params": {}, "hostile": false}),
        _ => json!({"k": "note", "method": "textDocument/didChange", "params": {"textDocument": {"uri": u, "version": 2}, "contentChanges": [{"text": *rng.pick(TEXTS)}]}, "hostile": false}),
    }
}

fn req_item(r: (String, Value, String)) -> Value {
    json!({"k": "req", "method": r.0, "params": r.1, "tag": r.2})
}

pub fn generate(rng: &mut Rng, thorough: bool) -> Vec<Value> {
    let mut out = vec![];
    let n = if thorough { 1600 } else { 110 };
    for i in 0..n {
        let len = rng.range(4, 14);
        let mut items = vec![];
        for _ in 0..len {
            match rng.below(12) {
                0 => items.push(gen_note(rng)),
                1 => {
                    let k = rng.range(2, 6);
                    let reqs: Vec<Value> = (0..k).map(|_| req_item(gen_request(rng))).collect();
                    items.push(json!({"k": "burst", "reqs": reqs}));
                }
                2 => items.push(json!({"k": "req", "method": "shutdown", "params": Value::Null, "tag": "shutdown"})),
                _ => items.push(req_item(gen_request(rng))),
            }
        }
        let end = if i % 5 == 4 { "drop" } else { "exit" };
        if end == "exit" && rng.chance(1, 2) {
            items.push(json!({"k": "req", "method": "shutdown", "params": Value::Null, "tag": "shutdown"}));
        }
        out.push(json!({"model": rng.chance(1, 2), "items": items, "end": end}));
    }
    out
}

pub fn label(v: &Value) -> String {
    // coarse features of the sequence (the per-request tags are in the inputs)
    let mut f: Vec<&str> = vec![];
    let add = |x: &'static str, f: &mut Vec<&str>| if !f.contains(&x) { f.push(x) };
    fn req_feature(it: &Value) -> Option<&'static str> {
        let tag = it["tag"].as_str().unwrap_or("");
        if tag.starts_with("executeCommand") { Some("command") }
        else if tag == "shutdown" { Some("shutdown") }
        else if tag == "unknown-method" { Some("unknown-method") }
        else if tag == "ill-typed" { Some("ill-typed") }
        else if tag.contains("unknown") || tag.contains("outside") { Some("foreign-uri") }
        else if tag.contains("absurd") { Some("absurd-id") }
        else { None }
    }
    for it in v["items"].as_array().map(|a| a.as_slice()).unwrap_or(&[]) {
        match it["k"].as_str() {
            Some("req") => { if let Some(x) = req_feature(it) { add(x, &mut f) } }
            Some("burst") => {
                add("burst", &mut f);
                for r in it["reqs"].as_array().map(|a| a.as_slice()).unwrap_or(&[]) { if let Some(x) = req_feature(r) { add(x, &mut f) } }
            }
            _ => add(if it["hostile"].as_bool().unwrap_or(false) { "hostile-note" } else { "note" }, &mut f),
        }
    }
    f.sort();
    format!("end={} {}", v["end"].as_str().unwrap_or("?"), f.join("+"))
}

fn kind_of(method: &str) -> u64 {
    match method { "workspace/executeCommand" => 1, "shutdown" => 2, _ => 0 }
}

struct Obs { id: i32, kind: u64, panicked: bool, resps: Vec<u64>, done: bool }

fn gobs(o: &Obs) -> String {
    gapp("Check_C12.RO", &[gn(o.id as u64), gn(o.kind), gbool(o.panicked), glist(&o.resps.iter().map(|k| format!("{}%N", k)).collect::<Vec<_>>()), gbool(o.done)])
}

fn canonical(v: &Value) -> String {
    match v {
        Value::Array(a) => {
            let mut xs: Vec<String> = a.iter().map(|x| x.to_string()).collect();
            xs.sort();
            xs.join(",")
        }
        other => other.to_string(),
    }
}

pub fn execute(v: &Value) -> String {
    drv::install_panic_hook();
    let _ = drv::take_panics();
    let docs = std_docs();
    let mut srv = Srv::start(&docs, drv::configuration(v["model"].as_bool().unwrap_or(false)), false);
    let mut next_id: i32 = 1;
    let mut sent_ids: Vec<i32> = vec![];
    let mut baseline: Option<String> = None;
    let mut items: Vec<String> = vec![];

    // run `reqs` (in flight together), wait for their workers, observe
    let run_reqs = |srv: &mut Srv, reqs: &[(String, Value)], next_id: &mut i32, sent_ids: &mut Vec<i32>| -> Vec<Obs> {
        let mut ids = vec![];
        for (m, p) in reqs {
            let id = *next_id;
            *next_id += 1;
            sent_ids.push(id);
            srv.request(id, m, p.clone());
            ids.push((id, kind_of(m)));
        }
        let mut done = vec![];
        for (id, _) in &ids {
            done.push(srv.wait_gone(*id, WORKER_LIMIT));
        }
        srv.drain();
        let panics = drv::take_panics();
        ids.iter()
            .zip(done)
            .map(|((id, kind), d)| Obs {
                id: *id,
                kind: *kind,
                panicked: panics.iter().any(|p| p.as_deref() == Some(id.to_string().as_str())),
                resps: drv::response_kinds(&srv.received, *id),
                done: d,
            })
            .collect()
    };

    let probe = |srv: &mut Srv, next_id: &mut i32, sent_ids: &mut Vec<i32>, baseline: &mut Option<String>| -> (Obs, bool) {
        // two probes: the symbol listing (its observation is the one reported) and the code actions
        // offered on the first line of note 2, a request that goes through the action providers and
        // their shared tables; both answers must stay what they were
        let mut os = run_reqs(srv, &[
            ("workspace/symbol".to_string(), json!({"query": ""})),
            ("textDocument/codeAction".to_string(), json!({"textDocument": {"uri": "file:///base/2.md"}, "range": {"start": {"line": 0, "character": 0}, "end": {"line": 0, "character": 0}}, "context": {"diagnostics": []}})),
        ], next_id, sent_ids);
        let o2 = os.pop().unwrap();
        let o = os.pop().unwrap();
        let actions = drv::responses_to(&srv.received, o2.id).first().map(|r| match (&r.result, &r.error) {
            (Some(v), None) => canonical(v),
            _ => "<error>".to_string(),
        }).unwrap_or_else(|| "<none>".to_string());
        let answer = drv::responses_to(&srv.received, o.id).first().and_then(|r| r.result.as_ref()).map(canonical).map(|a| format!("{}|{}", a, actions));
        let same = match (&*baseline, &answer) {
            (None, Some(a)) => { *baseline = Some(a.clone()); true }
            (Some(b), Some(a)) => a == b,
            (_, None) => false,
        };
        (o, same)
    };

    for it in v["items"].as_array().map(|a| a.as_slice()).unwrap_or(&[]) {
        match it["k"].as_str() {
            Some("req") => {
                let o = run_reqs(&mut srv, &[(it["method"].as_str().unwrap_or("").to_string(), it["params"].clone())], &mut next_id, &mut sent_ids).pop().unwrap();
                let (p, same) = probe(&mut srv, &mut next_id, &mut sent_ids, &mut baseline);
                items.push(gapp("Check_C12.IReq", &[gobs(&o), gobs(&p), gbool(same)]));
            }
            Some("burst") => {
                let reqs: Vec<(String, Value)> = it["reqs"].as_array().map(|a| a.as_slice()).unwrap_or(&[]).iter().map(|r| (r["method"].as_str().unwrap_or("").to_string(), r["params"].clone())).collect();
                let os = run_reqs(&mut srv, &reqs, &mut next_id, &mut sent_ids);
                let (p, same) = probe(&mut srv, &mut next_id, &mut sent_ids, &mut baseline);
                items.push(gapp("Check_C12.IBurst", &[glist(&os.iter().map(gobs).collect::<Vec<_>>()), gobs(&p), gbool(same)]));
            }
            _ => {
                srv.notify(it["method"].as_str().unwrap_or(""), it["params"].clone());
                let panicked = srv.wait_note_end(WORKER_LIMIT).unwrap_or(true);
                let _ = drv::take_panics();
                baseline = None;
                items.push(gapp("Check_C12.INote", &[gbool(it["hostile"].as_bool().unwrap_or(false)), gbool(panicked)]));
            }
        }
    }
    let send_exit = v["end"].as_str() == Some("exit");
    let loop_code = srv.finish(send_exit, Duration::from_secs(5));
    srv.drain();
    let edits = srv.received.iter().filter(|m| matches!(m, Message::Request(r) if r.method == "workspace/applyEdit")).count();
    let stray = srv.received.iter().filter(|m| matches!(m, Message::Response(r) if !sent_ids.iter().any(|i| lsp_server::RequestId::from(*i) == r.id))).count();
    gapp("Check_C12.Case", &[glist(&items), gbool(send_exit), gn(edits as u64), gn(stray as u64), gn(loop_code)])
}
