//! Generators of library inputs ({"ext":..., "notes":[[name,text],...]}) shared by the
//! properties that work on the library stage.
use crate::gen;
use crate::rng::Rng;
use serde_json::{json, Value};

pub fn lib_input(rng: &mut Rng, hostile: bool, max_notes: usize, nested: bool, kind: &str) -> Value {
    let notes = gen::library(rng, hostile, max_notes, nested);
    let ext = if rng.chance(1, 3) { ".md" } else { "" };
    json!({"ext": ext, "kind": kind, "notes": notes.iter().map(|n| json!([n.name, n.text])).collect::<Vec<_>>()})
}

pub fn generate_mixed(rng: &mut Rng, thorough: bool, n_quick: usize) -> Vec<Value> {
    let n = if thorough { n_quick * 15 } else { n_quick };
    let mut out = vec![];
    for i in 0..n {
        let (hostile, nested, kind) = match i % 4 {
            0 => (false, false, "inert-flat"),
            1 => (false, true, "inert-nested"),
            2 => (true, false, "hostile-flat"),
            _ => (true, true, "hostile-nested"),
        };
        out.push(lib_input(rng, hostile, 4, nested, kind));
    }
    // appended after the main stream (so that the cases above do not move): long ordered lists.
    // Item numbers of three digits widen the marker; blocks that continue such an item (sub-list,
    // second paragraph, code, quote) must stay inside it.  Inert words only.
    for v in 0..(if thorough { 12 } else { 4 }) {
        out.push(long_list_input(rng, v));
    }
    out
}

fn long_list_input(rng: &mut Rng, variant: usize) -> Value {
    let n = 100 + rng.range(0, 9);
    let start = if variant % 4 == 3 { 1 + rng.range(0, 1) } else { 1 };
    let mut body = String::new();
    for i in 0..n {
        let num = start + i;
        let marker = format!("{}.", num);
        let pad = " ".repeat(marker.len() + 1);
        body.push_str(&format!("{} {} {}\n", marker, gen::word(rng, false), num));
        if num >= 98 || rng.chance(1, 30) {
            match (variant + i) % 5 {
                0 => body.push_str(&format!("{}- {}\n{}- {}\n", pad, gen::word(rng, false), pad, gen::word(rng, false))),
                1 => body.push_str(&format!("\n{}{} {}\n\n", pad, gen::word(rng, false), gen::word(rng, false))),
                2 => body.push_str(&format!("\n{}```\n{}{}\n{}```\n\n", pad, pad, gen::word(rng, false), pad)),
                3 => body.push_str(&format!("\n{}> {}\n\n", pad, gen::word(rng, false))),
                _ => {}
            }
        }
    }
    let text = match variant % 3 {
        0 => format!("# {}\n\n{}\n{}\n", gen::word(rng, false), body, gen::word(rng, false)),
        1 => format!("# {}\n\n## {}\n\n{}", gen::word(rng, false), gen::word(rng, false), body),
        _ => {
            // the same list inside a block quote
            let quoted: String = body.lines().map(|l| if l.is_empty() { ">\n".to_string() } else { format!("> {}\n", l) }).collect();
            format!("# {}\n\n{}", gen::word(rng, false), quoted)
        }
    };
    let ext = if variant % 2 == 1 { ".md" } else { "" };
    json!({"ext": ext, "kind": "long-list", "notes": [["a", text]]})
}

pub fn label(v: &Value) -> String {
    let n = v["notes"].as_array().map(|a| a.len()).unwrap_or(0);
    format!("{}:ext={}:notes={}", v["kind"].as_str().unwrap_or("?"), v["ext"].as_str().unwrap_or(""), n)
}
