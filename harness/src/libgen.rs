//! Generators of library inputs ({"ext":..., "notes":[[name,text],...]}) shared by the
//! properties that work on the library stage.
use crate::gen;
use crate::rng::Rng;
use serde_json::{json, Value};

pub fn lib_input(rng: &mut Rng, hostile: bool, max_notes: usize, nested: bool, kind: &str) -> Value {
    let notes = gen::library(rng, hostile, max_notes, nested);
    let ext = if rng.chance(1, 3) { ".md" } else { "" };
    json!({"ext": ext, "kind": kind, "notes": notes.iter().map(|n| json!([n.name, n.text])).collect::<Vec<_>>()})
}

pub fn generate_mixed(rng: &mut Rng, thorough: bool, n_quick: usize) -> Vec<Value> {
    let n = if thorough { n_quick * 15 } else { n_quick };
    let mut out = vec![];
    for i in 0..n {
        let (hostile, nested, kind) = match i % 4 {
            0 => (false, false, "inert-flat"),
            1 => (false, true, "inert-nested"),
            2 => (true, false, "hostile-flat"),
            _ => (true, true, "hostile-nested"),
        };
        out.push(lib_input(rng, hostile, 4, nested, kind));
    }
    out
}

pub fn label(v: &Value) -> String {
    let n = v["notes"].as_array().map(|a| a.len()).unwrap_or(0);
    format!("{}:ext={}:notes={}", v["kind"].as_str().unwrap_or("?"), v["ext"].as_str().unwrap_or(""), n)
}
