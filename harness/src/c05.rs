//! C05 — backlinks are exact.  Libraries with many cross links (in emphasis, nested lists,
//! quotes, headings, after tables, to the note itself, to missing notes, with `.md`, across
//! sub-directories) are imported with the real code; dumped, besides the library case of
//! lib_stage.rs: Graph::get_{block,inline}_references_to for every note key and every key a
//! link of the library could be read as, the node -> (note, line range) mapping the handlers
//! use, `Server::handle_references` per note, and the same index queries after
//! `update_key(note, its own unchanged text)` of each note (the path where staleness shows).
use crate::gal::*;
use crate::gen::{self, Ctx, Style, GB, GI};
use crate::lib_stage::{self, gres, notes_of, panic_msg, state_of};
use crate::rng::Rng;
use crate::PropModule;
use liwe::graph::{Graph, GraphContext, Reader};
use liwe::markdown::MarkdownReader;
use liwe::model::config::MarkdownOptions;
use liwe::model::document::{DocumentBlock, DocumentInline};
use liwe::model::Key;
use serde_json::{json, Value};
use std::collections::BTreeSet;
use std::panic::{catch_unwind, AssertUnwindSafe};

pub fn module() -> PropModule {
    PropModule { coq_module: "Check_C05", runner: "Check_C05.run_C05", generate, execute, label }
}

// ------------------------------------------------------------------ generator

fn link_to(rng: &mut Rng, ctx: &Ctx) -> GI {
    let t = gen::target(rng, ctx);
    match rng.below(8) {
        0 => GI::Wiki(t),
        1 => GI::WikiPiped(t, gen::word(rng, false)),
        2 => GI::Emph(vec![GI::Link(vec![GI::Word(gen::word(rng, false))], t)]),
        3 => GI::Strong(vec![GI::Word("s".into()), GI::Emph(vec![GI::Link(vec![GI::Word("deep".into())], t)])]),
        4 => GI::Strike(vec![GI::Link(vec![GI::Word("gone".into())], t)]),
        _ => GI::Link(vec![GI::Word(gen::word(rng, false))], t),
    }
}

fn text_with_links(rng: &mut Rng, ctx: &Ctx) -> Vec<GI> {
    let mut out = vec![GI::Word(gen::word(rng, false))];
    for _ in 0..rng.range(1, 3) {
        out.push(link_to(rng, ctx));
        if rng.chance(1, 2) { out.push(GI::Word(gen::word(rng, false))); }
    }
    out
}

fn ref_para(rng: &mut Rng, ctx: &Ctx) -> GB {
    let t = gen::target(rng, ctx);
    match rng.below(5) {
        0 => GB::Para(vec![GI::Wiki(t)]),
        1 => GB::Para(vec![GI::WikiPiped(t, gen::word(rng, false))]),
        _ => GB::Para(vec![GI::Link(vec![GI::Word(gen::word(rng, false))], t)]),
    }
}

fn table(rng: &mut Rng, ctx: &Ctx) -> GB {
    let cols = rng.range(1, 2);
    GB::Table((0..2).map(|_| (0..cols).map(|_| if rng.chance(1, 3) { vec![link_to(rng, ctx)] } else { vec![GI::Word(gen::word(rng, false))] }).collect()).collect())
}

/// a block that carries links in one of the places the property names
pub fn linky(rng: &mut Rng, ctx: &Ctx, depth: usize) -> Vec<GB> {
    match rng.below(10) {
        0 => vec![GB::Para(text_with_links(rng, ctx))],
        1 => vec![ref_para(rng, ctx)],
        2 => vec![GB::Heading(rng.range(1, 4) as u8, text_with_links(rng, ctx))],
        3 => vec![GB::Quote(vec![GB::Para(text_with_links(rng, ctx)), ref_para(rng, ctx)])],
        4 => vec![table(rng, ctx), if rng.chance(1, 2) { ref_para(rng, ctx) } else { GB::Para(text_with_links(rng, ctx)) }],
        5 => vec![table(rng, ctx), GB::Heading(rng.range(2, 4) as u8, vec![GI::Word("after".into())]), ref_para(rng, ctx)],
        6 if depth < 2 => {
            // nested lists: item text with links, block reference and a sub-list inside items
            let inner = GB::Bullet(vec![vec![GB::Para(text_with_links(rng, ctx))], vec![GB::Para(vec![GI::Word("i".into())]), ref_para(rng, ctx)]]);
            vec![GB::Bullet(vec![vec![GB::Para(text_with_links(rng, ctx)), inner], vec![GB::Para(vec![link_to(rng, ctx)])]])]
        }
        7 if depth < 2 => vec![GB::Ordered(1, vec![vec![GB::Para(text_with_links(rng, ctx)), ref_para(rng, ctx)], vec![GB::Para(vec![GI::Word("w".into())]), GB::Quote(vec![ref_para(rng, ctx)])]])],
        8 => vec![GB::Rule, ref_para(rng, ctx), GB::Code(None, "c\n".into()), GB::Para(text_with_links(rng, ctx))],
        _ => vec![GB::Para(vec![GI::Image("pic".into(), "img.png".into()), link_to(rng, ctx)])],
    }
}

pub fn keys_for(rng: &mut Rng, n: usize, nested: bool) -> Vec<String> {
    let pool: Vec<&str> = if nested { gen::KEYS[..10].to_vec() } else { vec!["a", "b", "c", "n1", "n2", "k", "m"] };
    let mut keys: Vec<String> = vec![];
    while keys.len() < n.min(pool.len()) {
        let k = rng.pick(&pool).to_string();
        if !keys.contains(&k) { keys.push(k); }
    }
    keys
}

pub fn targets_from(keys: &[String], dir: &str) -> Vec<String> {
    keys.iter().map(|t| gen::rel_url(t, dir)).filter(|u| !u.is_empty()).collect()
}

fn library(rng: &mut Rng, hostile: bool, nested: bool, max_notes: usize, clean: bool) -> Vec<(String, String)> {
    let n = rng.range(1, max_notes);
    let keys = keys_for(rng, n, nested);
    let mut notes = vec![];
    for k in &keys {
        let dir = gen::dir_of(k);
        let targets = targets_from(&keys, &dir);
        let ctx = Ctx { targets: &targets, hostile, max_depth: 2 };
        let mut doc = if !clean && rng.chance(1, 3) { gen::document(rng, &ctx) } else { vec![GB::Heading(1, vec![GI::Word(gen::word(rng, false))])] };
        for _ in 0..rng.range(1, 4) {
            let mut extra = linky(rng, &ctx, 0);
            // clean libraries stay outside every known class: no quotes
            while clean && extra.iter().any(has_quote) { extra = linky(rng, &ctx, 0); }
            let at = rng.range(0, doc.len());
            for (i, b) in extra.into_iter().enumerate() { doc.insert((at + i).min(doc.len()), b); }
        }
        let st = if hostile || rng.chance(1, 3) { Style::random(rng) } else { Style::plain() };
        let fm = if rng.chance(1, 10) { Some("title: t\n") } else { None };
        let mut text = gen::document_src(&doc, &st, fm);
        if clean {
            // ... and no url whose reading depends on the directory
            text = text.replace("(./a)", "(a)").replace("[[./a", "[[a").replace("../up", "up");
        }
        notes.push((k.clone(), text));
    }
    notes
}

fn has_quote(b: &GB) -> bool {
    match b {
        GB::Quote(_) => true,
        GB::Bullet(items) | GB::Ordered(_, items) => items.iter().flatten().any(has_quote),
        _ => false,
    }
}

fn generate(rng: &mut Rng, thorough: bool) -> Vec<Value> {
    let n = if thorough { 2400 } else { 160 };
    let mut out = vec![];
    for i in 0..n {
        let (hostile, nested, kind) = match i % 8 {
            0 | 4 => (false, false, "flat"),
            2 | 6 => (false, false, "flat-clean"),
            7 => (true, true, "hostile-nested"),
            _ => (false, true, "nested"),
        };
        let notes = library(rng, hostile, nested, 5, kind == "flat-clean");
        let ext = if rng.chance(1, 4) { ".md" } else { "" };
        out.push(json!({"ext": ext, "kind": kind, "notes": notes.iter().map(|n| json!([n.0, n.1])).collect::<Vec<_>>()}));
    }
    out
}

fn label(v: &Value) -> String {
    let n = v["notes"].as_array().map(|a| a.len()).unwrap_or(0);
    format!("{}:notes={}", v["kind"].as_str().unwrap_or("?"), n)
}

// ------------------------------------------------------------------ observations

fn inline_urls(i: &DocumentInline, out: &mut Vec<String>) {
    match i {
        DocumentInline::Emph(e) => e.inlines.iter().for_each(|x| inline_urls(x, out)),
        DocumentInline::Strong(e) => e.inlines.iter().for_each(|x| inline_urls(x, out)),
        DocumentInline::Strikeout(e) => e.inlines.iter().for_each(|x| inline_urls(x, out)),
        DocumentInline::Link(l) => { out.push(l.target.url.clone()); l.inlines.iter().for_each(|x| inline_urls(x, out)) }
        DocumentInline::Image(l) => l.inlines.iter().for_each(|x| inline_urls(x, out)),
        _ => {}
    }
}

fn block_urls(b: &DocumentBlock, out: &mut Vec<String>) {
    match b {
        DocumentBlock::Para(p) => p.inlines.iter().for_each(|x| inline_urls(x, out)),
        DocumentBlock::Header(h) => h.inlines.iter().for_each(|x| inline_urls(x, out)),
        DocumentBlock::BlockQuote(q) => q.blocks.iter().for_each(|x| block_urls(x, out)),
        DocumentBlock::BulletList(l) => l.items.iter().flatten().for_each(|x| block_urls(x, out)),
        DocumentBlock::OrderedList(l) => l.items.iter().flatten().for_each(|x| block_urls(x, out)),
        DocumentBlock::Table(t) => {
            t.header.iter().flatten().for_each(|x| inline_urls(x, out));
            t.rows.iter().flatten().flatten().for_each(|x| inline_urls(x, out));
        }
        _ => {}
    }
}

/// the keys to query: every note key, and for every link url of the library both readings
/// of it (with and without the linking note's directory).  These only select queries.
pub fn probe_keys(notes: &[(String, String)]) -> Vec<String> {
    let mut keys: BTreeSet<String> = BTreeSet::new();
    for (name, text) in notes {
        let key = Key::name(name);
        keys.insert(key.to_string());
        if let Ok(doc) = catch_unwind(AssertUnwindSafe(|| MarkdownReader::new().document(text))) {
            let mut urls = vec![];
            doc.blocks.iter().for_each(|b| block_urls(b, &mut urls));
            for u in urls {
                keys.insert(Key::from_file_name(&u).to_string());
                keys.insert(Key::from_rel_link_url(&u, &key.parent()).to_string());
            }
        }
    }
    keys.into_iter().collect()
}

fn ids(mut v: Vec<u64>) -> String {
    v.sort();
    glist(&v.iter().map(|i| gn(*i)).collect::<Vec<_>>())
}

pub fn queries(graph: &Graph, keys: &[String]) -> String {
    let mut qs = vec![];
    for k in keys {
        let key = Key::name(k);
        let b = catch_unwind(AssertUnwindSafe(|| graph.get_block_references_to(&key))).map(ids).map_err(panic_msg);
        let i = catch_unwind(AssertUnwindSafe(|| graph.get_inline_references_to(&key))).map(ids).map_err(panic_msg);
        qs.push(gapp("QO", &[gstr(k), gres(b), gres(i)]));
    }
    glist(&qs)
}

/// node id -> (note key, line range) for every live slot of the arena
pub fn locations(graph: &Graph) -> String {
    let mut out = vec![];
    for (id, node) in graph.nodes().iter().enumerate() {
        if node.is_empty() { continue; }
        let id = id as u64;
        let key = catch_unwind(AssertUnwindSafe(|| graph.key_of(id))).map(|k| gstr(&k.to_string())).map_err(panic_msg);
        let lr = graph.node_line_range(id).map(|r| format!("({}, {})", r.start, r.end));
        out.push(format!("({}, ({}, {}))", gn(id), gres(key), gopt(lr)));
    }
    glist(&out)
}

fn handler_references(notes: &[(String, String)], ext: &str, keys: &[String]) -> String {
    use iwes::router::server::Server;
    use iwes::router::{LspClient, ServerConfig};
    use lsp_types::*;
    let base = "/basepath";
    let r = catch_unwind(AssertUnwindSafe(|| {
        let mut configuration = liwe::model::config::Configuration::default();
        configuration.markdown.refs_extension = ext.to_string();
        let server = Server::new(ServerConfig {
            base_path: base.to_string(),
            state: state_of(notes),
            sequential_ids: Some(true),
            configuration,
            lsp_client: LspClient::Unknown,
        });
        let mut out = vec![];
        for k in keys {
            let uri = Url::parse(&format!("file://{}/{}.md", base, k)).unwrap();
            let locs = catch_unwind(AssertUnwindSafe(|| {
                server.handle_references(ReferenceParams {
                    text_document_position: TextDocumentPositionParams { text_document: TextDocumentIdentifier { uri }, position: Position::new(0, 0) },
                    work_done_progress_params: WorkDoneProgressParams { work_done_token: None },
                    partial_result_params: PartialResultParams { partial_result_token: None },
                    context: ReferenceContext { include_declaration: false },
                })
            }));
            let v = match locs {
                Ok(ls) => {
                    let mut items: Vec<(String, u32, u32)> = ls
                        .iter()
                        .map(|l| {
                            let p = l.uri.path().to_string();
                            let p = p.strip_prefix(&format!("{}/", base)).unwrap_or(&p).to_string();
                            (p.strip_suffix(".md").unwrap_or(&p).to_string(), l.range.start.line, l.range.end.line)
                        })
                        .collect();
                    items.sort();
                    Ok(glist(&items.iter().map(|(k, s, e)| format!("({}, ({}, {}))", gstr(k), s, e)).collect::<Vec<_>>()))
                }
                Err(e) => Err(panic_msg(e)),
            };
            out.push(gpair(&gstr(k), &gres(v)));
        }
        glist(&out)
    }));
    match r {
        Ok(s) => format!("(Ok {})", s),
        Err(e) => format!("(Panic {})", gstr(&panic_msg(e))),
    }
}

fn plain_key(k: &str) -> bool {
    k.bytes().all(|b| b.is_ascii_alphanumeric() || b == b'/' )
}

pub fn execute(v: &Value) -> String {
    let ext = v["ext"].as_str().unwrap_or("");
    let notes = notes_of(v);
    let options = MarkdownOptions { refs_extension: ext.to_string() };
    let state = state_of(&notes);
    let lib = lib_stage::execute(v);
    let keys = probe_keys(&notes);
    let mut sorted = notes.clone();
    sorted.sort_by(|a, b| a.0.cmp(&b.0));

    let imported = catch_unwind(AssertUnwindSafe(|| Graph::import(&state, options.clone())));
    let (import_obs, updates, handler) = match &imported {
        Err(_) => ("(Panic \"import\")".to_string(), "[]".to_string(), "(Panic \"import\")".to_string()),
        Ok(graph) => {
            let io = format!("(Ok (IOB {} {}))", queries(graph, &keys), locations(graph));
            let mut ups = vec![];
            for (name, text) in &sorted {
                let key = Key::name(name);
                let r = catch_unwind(AssertUnwindSafe(|| {
                    let mut g2 = graph.clone();
                    g2.update_key(key.clone(), text);
                    format!("(IOB {} {})", queries(&g2, &keys), locations(&g2))
                }));
                ups.push(gpair(&gstr(name), &gres(r.map_err(panic_msg))));
            }
            // the handler is asked for the note keys only (uris of plain ascii keys)
            let note_keys: Vec<String> = sorted.iter().map(|(n, _)| Key::name(n).to_string()).filter(|k| plain_key(k)).collect();
            (io, glist(&ups), handler_references(&notes, ext, &note_keys))
        }
    };
    gapp("C05", &[lib, import_obs, updates, handler])
}
