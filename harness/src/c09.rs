//! C09 — extract / inline refactorings (kinds 1-4 of actions.rs) on generated libraries.
use crate::actions;
use crate::PropModule;
use serde_json::Value;

pub fn module() -> PropModule {
    PropModule {
        coq_module: "Check_C09",
        runner: "Check_C09.run_C09",
        generate: |r, t| actions::generate(r, t, 55),
        execute: |v: &Value| actions::execute(v, &[1, 2, 3, 4]),
        label: actions::label,
    }
}
