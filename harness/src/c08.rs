//! C08 — rename: a real `iwes::router::server::Server` on a generated library; for every
//! attempt (note holding the cursor, n-th link occurrence of that note, new name) the real
//! `handle_prepare_rename` / `handle_rename` are called, the returned WorkspaceEdit is applied
//! to a copy of the library texts and every resulting note is re-read with the real reader,
//! so that the Coq side evaluates the property on the implementation's own observations.
//!
//! input: {"ext":..,"kind":..,"notes":[[name,text],..],"attempts":[[note name, link index, new name],..]}
use crate::dump;
use crate::gal::*;
use crate::gen;
use crate::lib_stage::{self, gres, panic_msg};
use crate::rng::Rng;
use crate::PropModule;
use iwes::router::server::Server;
use iwes::router::{LspClient, ServerConfig};
use liwe::database::DatabaseContext;
use liwe::markdown::MarkdownReader;
use liwe::graph::Reader;
use liwe::model::config::{Configuration, MarkdownOptions};
use liwe::model::document::{DocumentBlock, DocumentInline};
use liwe::model::Key;
use lsp_types::*;
use serde_json::{json, Value};
use std::collections::BTreeMap;
use std::panic::{catch_unwind, AssertUnwindSafe};

pub fn module() -> PropModule {
    PropModule { coq_module: "Check_C08", runner: "Check_C08.run_C08", generate, execute, label }
}

const BASE: &str = "file:///basepath/";

fn uri_of(stem: &str) -> Url {
    Url::from_file_path(format!("/basepath/{}.md", stem)).unwrap()
}

/// file stem of a uri under the base path: the decoded path without the base and without one `.md`
fn stem_of(uri: &Url) -> String {
    let s = match uri.to_file_path() {
        Ok(p) => format!("file://{}", p.to_string_lossy()),
        Err(_) => uri.to_string(),
    };
    let s = s.strip_prefix(BASE).unwrap_or(&s).to_string();
    s.strip_suffix(".md").unwrap_or(&s).to_string()
}

// ------------------------------------------------------------------ link occurrences

fn inline_links(i: &DocumentInline, out: &mut Vec<(usize, usize, String)>) {
    match i {
        DocumentInline::Link(l) => {
            out.push((l.inline_range.start.line, l.inline_range.start.character, l.target.url.clone()));
        }
        DocumentInline::Emph(e) => e.inlines.iter().for_each(|x| inline_links(x, out)),
        DocumentInline::Strong(e) => e.inlines.iter().for_each(|x| inline_links(x, out)),
        DocumentInline::Strikeout(e) => e.inlines.iter().for_each(|x| inline_links(x, out)),
        DocumentInline::Image(e) => e.inlines.iter().for_each(|x| inline_links(x, out)),
        _ => {}
    }
}

fn block_links(b: &DocumentBlock, out: &mut Vec<(usize, usize, String)>) {
    match b {
        DocumentBlock::Para(p) => p.inlines.iter().for_each(|x| inline_links(x, out)),
        DocumentBlock::Plain(p) => p.inlines.iter().for_each(|x| inline_links(x, out)),
        DocumentBlock::Header(p) => p.inlines.iter().for_each(|x| inline_links(x, out)),
        DocumentBlock::BlockQuote(q) => q.blocks.iter().for_each(|x| block_links(x, out)),
        DocumentBlock::BulletList(l) => l.items.iter().for_each(|it| it.iter().for_each(|x| block_links(x, out))),
        DocumentBlock::OrderedList(l) => l.items.iter().for_each(|it| it.iter().for_each(|x| block_links(x, out))),
        DocumentBlock::Table(t) => {
            t.header.iter().for_each(|c| c.iter().for_each(|x| inline_links(x, out)));
            t.rows.iter().for_each(|r| r.iter().for_each(|c| c.iter().for_each(|x| inline_links(x, out))));
        }
        _ => {}
    }
}

/// (line, character, url) of every link occurrence of a text, in document order, positions
/// being the start of the inline range the real reader assigns
fn link_sites(text: &str) -> Vec<(usize, usize, String)> {
    catch_unwind(AssertUnwindSafe(|| {
        let doc = MarkdownReader::new().document(text);
        let mut out = vec![];
        doc.blocks.iter().for_each(|b| block_links(b, &mut out));
        out
    }))
    .unwrap_or_default()
}

// ------------------------------------------------------------------ edits

#[derive(Clone, Debug)]
enum Op {
    Override(String, String),
    Delete(String),
    Create(String),
    Insert(String, String),
    Other(String),
}

fn op_gal(o: &Op) -> String {
    match o {
        Op::Override(s, t) => gapp("OpOverride", &[gstr(s), gstr(t)]),
        Op::Delete(s) => gapp("OpDelete", &[gstr(s)]),
        Op::Create(s) => gapp("OpCreate", &[gstr(s)]),
        Op::Insert(s, t) => gapp("OpInsert", &[gstr(s), gstr(t)]),
        Op::Other(s) => gapp("OpOther", &[gstr(s)]),
    }
}

fn ops_of(edit: &WorkspaceEdit) -> Vec<Op> {
    let mut out = vec![];
    if edit.changes.is_some() {
        out.push(Op::Other("changes".into()));
    }
    match &edit.document_changes {
        None => {}
        Some(DocumentChanges::Edits(_)) => out.push(Op::Other("edits".into())),
        Some(DocumentChanges::Operations(ops)) => {
            for op in ops {
                match op {
                    DocumentChangeOperation::Op(ResourceOp::Delete(d)) => out.push(Op::Delete(stem_of(&d.uri))),
                    DocumentChangeOperation::Op(ResourceOp::Create(c)) => {
                        let plain = c.options.as_ref().map_or(true, |o| o.overwrite != Some(true) && o.ignore_if_exists != Some(true));
                        if plain { out.push(Op::Create(stem_of(&c.uri))) } else { out.push(Op::Other("create with options".into())) }
                    }
                    DocumentChangeOperation::Op(ResourceOp::Rename(_)) => out.push(Op::Other("rename op".into())),
                    DocumentChangeOperation::Edit(e) => {
                        let stem = stem_of(&e.text_document.uri);
                        if e.edits.len() != 1 {
                            out.push(Op::Other("several text edits".into()));
                            continue;
                        }
                        let te = match &e.edits[0] {
                            OneOf::Left(t) => t.clone(),
                            OneOf::Right(a) => a.text_edit.clone(),
                        };
                        let r = te.range;
                        if r.start == Position::new(0, 0) && r.end == Position::new(u32::MAX, 0) {
                            out.push(Op::Override(stem, te.new_text));
                        } else if r.start == Position::new(0, 0) && r.end == Position::new(0, 0) {
                            out.push(Op::Insert(stem, te.new_text));
                        } else {
                            out.push(Op::Other(format!("edit range {:?}", r)));
                        }
                    }
                }
            }
        }
    }
    out
}

/// the editor's side: apply the operations in order to the files (stem -> text)
fn apply_ops(files: &BTreeMap<String, String>, ops: &[Op]) -> Option<BTreeMap<String, String>> {
    let mut f = files.clone();
    for op in ops {
        match op {
            Op::Override(s, t) => {
                if !f.contains_key(s) { return None; }
                f.insert(s.clone(), t.clone());
            }
            Op::Delete(s) => {
                if f.remove(s).is_none() { return None; }
            }
            Op::Create(s) => {
                if f.contains_key(s) { return None; }
                f.insert(s.clone(), String::new());
            }
            Op::Insert(s, t) => {
                let old = f.get(s)?.clone();
                f.insert(s.clone(), format!("{}{}", t, old));
            }
            Op::Other(_) => return None,
        }
    }
    Some(f)
}

fn reread(text: &str) -> String {
    let r = catch_unwind(AssertUnwindSafe(|| MarkdownReader::new().document(text)));
    gres(match r {
        Ok(d) => Ok(format!("({}, {})", gopt(d.metadata.clone().map(|m| gstr(&m))), dump::dblocks(&d.blocks))),
        Err(e) => Err(panic_msg(e)),
    })
}

// ------------------------------------------------------------------ execute

pub fn execute(v: &Value) -> String {
    let lc = lib_stage::execute(v);
    let ext = v["ext"].as_str().unwrap_or("");
    let notes = lib_stage::notes_of(v);
    let mut sorted = notes.clone();
    sorted.sort_by(|a, b| a.0.cmp(&b.0));
    let files: BTreeMap<String, String> = notes.iter().cloned().collect();
    let texts = glist(&sorted.iter().map(|(n, t)| gpair(&gstr(n), &gstr(t))).collect::<Vec<_>>());

    let server = catch_unwind(AssertUnwindSafe(|| {
        Server::new(ServerConfig {
            base_path: "/basepath".to_string(),
            state: lib_stage::state_of(&notes),
            sequential_ids: Some(true),
            lsp_client: LspClient::Unknown,
            configuration: Configuration { markdown: MarkdownOptions { refs_extension: ext.to_string() }, ..Default::default() },
        })
    }));

    // "touch": one note is re-submitted with its own text before the rename, so that the rename
    // runs on a server whose reference index went through updates (merge-only index, tombstones)
    // and not only on a freshly started one; the library is the same, the model's answer too
    // (C04_index_no_history: the getters answer the live links of the current arena)
    let mut server = server;
    // (not for libraries holding a list item that starts with a list: open finding F-ITEMLEAD
    // corrupts the arena on update, which is C04/C20's business)
    fn lead_list(bs: &[DocumentBlock]) -> bool {
        bs.iter().any(|b| match b {
            DocumentBlock::BulletList(l) => l.items.iter().any(|it| matches!(it.first(), Some(DocumentBlock::BulletList(_)) | Some(DocumentBlock::OrderedList(_))) || lead_list(it)),
            DocumentBlock::OrderedList(l) => l.items.iter().any(|it| matches!(it.first(), Some(DocumentBlock::BulletList(_)) | Some(DocumentBlock::OrderedList(_))) || lead_list(it)),
            DocumentBlock::BlockQuote(q) => lead_list(&q.blocks),
            _ => false,
        })
    }
    let touchable = sorted.iter().all(|(_, t)| {
        catch_unwind(AssertUnwindSafe(|| MarkdownReader::new().document(t))).map(|d| !lead_list(&d.blocks)).unwrap_or(false)
    });
    if v["touch"].as_bool() == Some(true) && touchable {
        if let Ok(srv) = server.as_mut() {
            // one note only: re-submitting every note would rebuild every index entry
            let pick = v["touch_pick"].as_u64().unwrap_or(0) as usize % sorted.len().max(1);
            for (name, text) in sorted.iter().skip(pick).take(1) {
                let params = DidChangeTextDocumentParams {
                    text_document: VersionedTextDocumentIdentifier { uri: uri_of(name), version: 2 },
                    content_changes: vec![TextDocumentContentChangeEvent { range: None, range_length: None, text: text.clone() }],
                };
                let _ = catch_unwind(AssertUnwindSafe(|| srv.handle_did_change_text_document(params)));
            }
        }
    }
    let mut attempts = vec![];
    // a graph of the same library, for the table oracle of a note written into another directory
    let oracle_options = MarkdownOptions { refs_extension: ext.to_string() };
    let oracle_graph = catch_unwind(AssertUnwindSafe(|| liwe::graph::Graph::import(&lib_stage::state_of(&notes), oracle_options.clone()))).ok();
    if let Ok(server) = &server {
        for a in v["attempts"].as_array().cloned().unwrap_or_default() {
            let doc = a[0].as_str().unwrap_or("").to_string();
            let idx = a[1].as_u64().unwrap_or(0) as usize;
            let new_name = a[2].as_str().unwrap_or("").to_string();
            let sites = files.get(&doc).map(|t| link_sites(t)).unwrap_or_default();
            let (line, ch) = if sites.is_empty() { (0usize, 0usize) } else { let s = &sites[idx % sites.len()]; (s.0, s.1) };
            let pos = Position::new(line as u32, ch as u32);
            let tdp = TextDocumentPositionParams { text_document: TextDocumentIdentifier { uri: uri_of(&doc) }, position: pos };
            let doc_key = Key::name(&doc);

            // oracle: the link the real reader finds under the cursor
            let site = catch_unwind(AssertUnwindSafe(|| {
                server.database().parser(&doc_key).and_then(|p| p.url_at(liwe::model::Position { line, character: ch }))
            }))
            .map(|o| gopt(o.map(|u| gstr(&u))))
            .map_err(panic_msg);

            let prepare = catch_unwind(AssertUnwindSafe(|| server.handle_prepare_rename(tdp.clone())))
                .map(|o| {
                    gopt(o.map(|r| match r {
                        PrepareRenameResponse::RangeWithPlaceholder { placeholder, .. } => gstr(&placeholder),
                        _ => gstr("<other>"),
                    }))
                })
                .map_err(panic_msg);

            let result = catch_unwind(AssertUnwindSafe(|| {
                server.handle_rename(RenameParams { text_document_position: tdp.clone(), new_name: new_name.clone(), work_done_progress_params: Default::default() })
            }));
            let (result_gal, after) = match result {
                Err(e) => (format!("(Panic {})", gstr(&panic_msg(e))), None),
                Ok(Err(e)) => (format!("(Ok (RErr {}))", gstr(&e.message)), Some(files.clone())),
                Ok(Ok(None)) => ("(Ok RNone)".to_string(), Some(files.clone())),
                Ok(Ok(Some(edit))) => {
                    let ops = ops_of(&edit);
                    (format!("(Ok (REdits {}))", glist(&ops.iter().map(op_gal).collect::<Vec<_>>())), apply_ops(&files, &ops))
                }
            };
            // oracle: the text of the tables of the note under the cursor as they are written where the
            // note goes (a rename into another directory writes the note links of its cells relative to it)
            let moved_tables: Vec<String> = catch_unwind(AssertUnwindSafe(|| {
                let url = server.database().parser(&doc_key).and_then(|p| p.url_at(liwe::model::Position { line, character: ch }));
                match url {
                    Some(u) => {
                        let target = Key::from_rel_link_url(&u, &doc_key.parent());
                        let new_key = Key::from_rel_link_url(&new_name, &doc_key.parent());
                        match &oracle_graph {
                            Some(g) => lib_stage::tables_of_at(g, &target, &new_key.parent(), &oracle_options),
                            None => vec![],
                        }
                    }
                    None => vec![],
                }
            }))
            .unwrap_or_default();
            let tables_gal = glist(&moved_tables.iter().map(|t| gstr(t)).collect::<Vec<_>>());
            let after_gal = gopt(after.map(|f| {
                glist(&f.iter().map(|(s, t)| format!("({}, {}, {})", gstr(s), gstr(t), reread(t))).collect::<Vec<_>>())
            }));
            attempts.push(gapp("AT", &[gstr(&doc_key.to_string()), gres(site), gres(prepare), gstr(&new_name), tables_gal, result_gal, after_gal]));
        }
    }
    gapp("RC", &[lc, texts, gbool(server.is_ok()), glist(&attempts)])
}

// ------------------------------------------------------------------ generate

const NEW_ROOT: &[&str] = &["new", "zz", "n9", "a1"];
const NEW_SUB: &[&str] = &["d/new", "sub/new", "d/e/new"];

fn attempts_for(rng: &mut Rng, notes: &[(String, String)], n_attempts: usize) -> Vec<Value> {
    let mut out = vec![];
    // every (note, link occurrence) is a candidate site
    let mut sites: Vec<(String, usize)> = vec![];
    for (name, text) in notes {
        let n = link_sites(text).len();
        for i in 0..n { sites.push((name.clone(), i)); }
        if n == 0 { sites.push((name.clone(), 0)); }
    }
    for _ in 0..n_attempts {
        let (doc, idx) = rng.pick(&sites).clone();
        let new_name = match rng.below(10) {
            0..=4 => rng.pick(NEW_ROOT).to_string(),
            5 => format!("{}.md", rng.pick(NEW_ROOT)),
            6 | 7 => rng.pick(&notes.iter().map(|n| n.0.clone()).collect::<Vec<_>>()).clone(), // taken
            8 => rng.pick(NEW_SUB).to_string(),
            _ => if rng.chance(1, 2) { format!("{}.md", rng.pick(&notes.iter().map(|n| n.0.clone()).collect::<Vec<_>>())) } else { rng.pick(NEW_SUB).to_string() },
        };
        // from a note in a sub-directory the name is read from that directory (like the url under
        // the cursor): one in three is typed relative to the parent (`../new` keeps the note there)
        let new_name = if doc.contains('/') && rng.chance(1, 3) { format!("../{}", new_name) } else { new_name };
        out.push(json!([doc, idx, new_name]));
    }
    out
}

pub fn generate(rng: &mut Rng, thorough: bool) -> Vec<Value> {
    let n = if thorough { 1000 } else { 64 };
    let mut out = vec![];
    for i in 0..n {
        let (hostile, nested, kind) = match i % 8 {
            0 | 1 | 2 | 4 | 5 => (false, false, "inert-flat"),
            3 | 6 => (false, true, "inert-nested"),
            _ => (true, false, "hostile-flat"),
        };
        let lib = gen::library(rng, hostile, 4, nested);
        let notes: Vec<(String, String)> = lib.iter().map(|n| (n.name.clone(), n.text.clone())).collect();
        let mut notes = notes;
        // look-alike keys: a note whose key extends another key (`k` / `k2`) or differs in case
        // only (`k` / `K`), each referring to the other, so that a comparison of keys that is
        // not exact equality shows
        if rng.chance(1, 3) {
            let roots: Vec<String> = notes.iter().map(|n| n.0.clone()).filter(|k| !k.contains('/')).collect();
            if !roots.is_empty() {
                let orig = rng.pick(&roots).clone();
                let extra = if rng.chance(1, 2) { format!("{}2", orig) } else { orig.to_uppercase() };
                if extra != orig && !notes.iter().any(|n| n.0 == extra) {
                    notes.push((extra.clone(), format!("# T {}\n\n[x]({})\n\n[y]({})\n\ninline [[{}]] and [[{}]] w\n", extra, orig, extra, extra, orig)));
                    let i = rng.below(notes.len() - 1);
                    let sep = if notes[i].1.ends_with('\n') { "" } else { "\n" };
                    notes[i].1 = format!("{}{}\n[e]({})\n\nsee [[{}]] too\n\n[o]({})\n", notes[i].1, sep, extra, extra, orig);
                }
            }
        }
        let ext = if rng.chance(1, 4) { ".md" } else { "" };
        let attempts = attempts_for(rng, &notes, 6);
        out.push(json!({"ext": ext, "kind": kind, "touch": i % 2 == 1, "touch_pick": i / 2, "notes": notes.iter().map(|n| json!([n.0, n.1])).collect::<Vec<_>>(), "attempts": attempts}));
    }
    out
}

pub fn label(v: &Value) -> String {
    let n = v["notes"].as_array().map(|a| a.len()).unwrap_or(0);
    let a = v["attempts"].as_array().map(|a| a.len()).unwrap_or(0);
    format!("{}:ext={}:notes={}:attempts={}{}", v["kind"].as_str().unwrap_or("?"), v["ext"].as_str().unwrap_or(""), n, a, if v["touch"].as_bool() == Some(true) { ":touched" } else { "" })
}
