//! Printers from Rust values to Gallina terms, and the case-file writer.
use std::fmt::Write as _;
use std::fs;
use std::path::Path;

/// A Coq `string` term for the bytes of `s`.
pub fn gstr(s: &str) -> String {
    let safe = s
        .bytes()
        .all(|b| b == b'\n' || b == b'\t' || (0x20..0x7f).contains(&b) || b >= 0x80);
    if safe {
        let mut out = String::with_capacity(s.len() + 2);
        out.push('"');
        for c in s.chars() {
            if c == '"' {
                out.push_str("\"\"");
            } else {
                out.push(c);
            }
        }
        out.push('"');
        out
    } else {
        let mut out = String::from("(sb [");
        for (i, b) in s.bytes().enumerate() {
            if i > 0 {
                out.push(';');
            }
            let _ = write!(out, "{}%N", b);
        }
        out.push_str("]%N)");
        out
    }
}

pub fn gn(n: u64) -> String {
    format!("{}", n)
}

pub fn gbool(b: bool) -> String {
    if b { "true".into() } else { "false".into() }
}

pub fn glist(items: &[String]) -> String {
    let mut out = String::from("[");
    for (i, it) in items.iter().enumerate() {
        if i > 0 {
            out.push_str("; ");
        }
        out.push_str(it);
    }
    out.push(']');
    out
}

pub fn gopt(o: Option<String>) -> String {
    match o {
        Some(x) => format!("(Some {})", x),
        None => "None".into(),
    }
}

pub fn gpair(a: &str, b: &str) -> String {
    format!("({}, {})", a, b)
}

pub fn gapp(ctor: &str, args: &[String]) -> String {
    if args.is_empty() {
        return ctor.to_string();
    }
    let mut out = String::from("(");
    out.push_str(ctor);
    for a in args {
        out.push(' ');
        out.push_str(a);
    }
    out.push(')');
    out
}

/// Write the cases of one property as shards `cases_NNN.v` under `dir`.
/// Every case is a Gallina term of the property's case type; the shard evaluates
/// `<runner> [(idx, case); ...]` with `vm_compute` and prints one `Report`.
pub fn write_shards(dir: &Path, module: &str, runner: &str, cases: &[String], shards: usize) -> usize {
    fs::create_dir_all(dir).unwrap();
    for e in fs::read_dir(dir).unwrap().flatten() {
        let n = e.file_name().to_string_lossy().to_string();
        if n.starts_with("cases_") {
            let _ = fs::remove_file(e.path());
        }
    }
    // at least `shards` files, never more than 40 cases in one (coqc time grows with the file) and
    // never much more than MAX_BYTES of case text in one (coqc needs about 1.3 GB per MB of terms)
    const MAX_BYTES: usize = 800_000;
    let shards = shards.max((cases.len() + 39) / 40).max(1).min(cases.len().max(1));
    let per = (cases.len() + shards - 1) / shards.max(1);
    let mut written = 0;
    let mut lo = 0usize;
    while lo < cases.len() {
        let mut hi = lo;
        let mut bytes = 0usize;
        while hi < cases.len() && hi - lo < per && (hi == lo || bytes + cases[hi].len() <= MAX_BYTES) {
            bytes += cases[hi].len();
            hi += 1;
        }
        let mut out = String::new();
        out.push_str("From IweV Require Import Str Harness ");
        out.push_str(module);
        out.push_str(".\nOpen Scope string_scope. Open Scope list_scope. Set Printing Width 200.\n");
        out.push_str("Definition cases := [\n");
        for (i, c) in cases[lo..hi].iter().enumerate() {
            if i > 0 {
                out.push_str(";\n");
            }
            let _ = write!(out, "({}%N, {})", lo + i, c);
        }
        out.push_str("\n].\n");
        let _ = write!(out, "Eval vm_compute in (report ({}) cases).\n", runner);
        fs::write(dir.join(format!("cases_{:03}.v", written)), out).unwrap();
        written += 1;
        lo = hi;
    }
    written
}
