//! C11 — no edit notification is lost, whatever requests are in flight.
//! Drives chosen interleavings of the message loop and the request workers on the real `iwes`
//! router through the cfg-guarded pause points (worker start / before respond / before exit,
//! loop begin/end of a notification): exhaustive for <= 2 requests x <= 2 notifications,
//! random walks beyond.  The schedules are the runs of the repaired model (Router.v); whether
//! the tree waits for the workers or drops the edit is found out by observation only.
//!
//! labels: "T" LoopTake, "R" LoopResume, "S<p>" "C<p>" "P<p>" "X<p>" worker of the request at
//! inbox position p: start / computed / respond / exit.
use crate::gal::*;
use crate::rng::Rng;
use crate::router_drv::{self as drv, Srv};
use crate::PropModule;
use iwes::router::verif_hooks::Point;
use lsp_server::Message;
use serde_json::{json, Value};
use std::time::Duration;

pub fn module() -> PropModule {
    PropModule { coq_module: "Check_C11", runner: "Check_C11.run_C11", generate, execute, label }
}

const STEP_LIMIT: Duration = Duration::from_secs(10);
/// how long to look for the end of a notification that meets a live worker before going on
/// (a tree that drops the edit reports it within microseconds; a tree that waits never does)
const MEET_WAIT: Duration = Duration::from_millis(3);

// ---------------------------------------------------------------- schedules of the model

#[derive(Clone)]
struct Mirror {
    taken: usize,
    waiting: bool,
    live: Vec<(usize, u8)>, // position, phase 0 spawned 1 started 2 computed 3 responded
}

fn enabled(kinds: &[u8], m: &Mirror) -> Vec<String> {
    let mut out = vec![];
    if !m.waiting && m.taken < kinds.len() {
        out.push("T".to_string());
    }
    if m.waiting && m.live.is_empty() {
        out.push("R".to_string());
    }
    for (p, ph) in &m.live {
        out.push(format!("{}{}", ["S", "C", "P", "X"][*ph as usize], p));
    }
    out
}

/// kinds: 0 request, 1 notification that mutates, 2 other notification
fn apply_label(kinds: &[u8], m: &mut Mirror, l: &str) {
    if l == "T" {
        match kinds[m.taken] {
            0 => m.live.push((m.taken, 0)),
            1 => {
                if !m.live.is_empty() {
                    m.waiting = true;
                }
            }
            _ => {}
        }
        m.taken += 1;
    } else if l == "R" {
        m.waiting = false;
    } else {
        let p: usize = l[1..].parse().unwrap();
        let i = m.live.iter().position(|(q, _)| *q == p).unwrap();
        if m.live[i].1 == 3 {
            m.live.remove(i);
        } else {
            m.live[i].1 += 1;
        }
    }
}

fn all_schedules(kinds: &[u8]) -> Vec<Vec<String>> {
    fn go(kinds: &[u8], m: &Mirror, cur: &mut Vec<String>, out: &mut Vec<Vec<String>>) {
        let en = enabled(kinds, m);
        if en.is_empty() {
            out.push(cur.clone());
            return;
        }
        for l in en {
            let mut m2 = m.clone();
            apply_label(kinds, &mut m2, &l);
            cur.push(l);
            go(kinds, &m2, cur, out);
            cur.pop();
        }
    }
    let mut out = vec![];
    go(kinds, &Mirror { taken: 0, waiting: false, live: vec![] }, &mut vec![], &mut out);
    out
}

fn random_schedule(kinds: &[u8], rng: &mut Rng) -> Vec<String> {
    let mut m = Mirror { taken: 0, waiting: false, live: vec![] };
    let mut out = vec![];
    loop {
        let en = enabled(kinds, &m);
        if en.is_empty() {
            return out;
        }
        // the loop is favoured so that notifications do meet live workers
        let l = if en[0] == "T" && rng.chance(1, 2) { en[0].clone() } else { rng.pick(&en).clone() };
        apply_label(kinds, &mut m, &l);
        out.push(l);
    }
}

// ---------------------------------------------------------------- inputs

fn docs() -> Value {
    json!([["a", "# a0\n"], ["b", "# b0\n\nbody of b\n"]])
}

fn text(key: &str, n: usize) -> String {
    if n % 3 == 2 { format!("# {}{}\n\nbody {}\n", key, n, n) } else { format!("# {}{}\n", key, n) }
}

/// fills a shape ('R' request, 'N' notification) with content, by variant
fn fill(shape: &str, variant: usize) -> Vec<Value> {
    let mut out = vec![];
    let (mut r, mut n) = (0, 0);
    for (i, ch) in shape.chars().enumerate() {
        if ch == 'R' {
            let key = match variant % 4 {
                0 => "a",
                1 => "b",
                2 => if r == 0 { "z" } else { "a" },
                _ => "c",
            };
            out.push(json!({"t": "req", "id": i + 1, "key": key}));
            r += 1;
        } else {
            let m = match variant % 4 {
                0 | 1 => json!({"t": "chg", "key": "a", "text": text("a", n + 1)}),
                2 => if n == 0 { json!({"t": "chg", "key": "c", "text": text("c", 1)}) } else { json!({"t": "sav", "key": "a", "text": text("a", 5)}) },
                _ => if n == 0 { json!({"t": "chg", "key": "c", "text": text("c", 2)}) } else { json!({"t": "sav", "key": "c", "text": Value::Null}) },
            };
            out.push(m);
            n += 1;
        }
    }
    out
}

fn kinds_of(msgs: &[Value]) -> Vec<u8> {
    msgs.iter()
        .map(|m| match m["t"].as_str() {
            Some("req") => 0,
            Some("chg") | Some("sav") => 1,
            _ => 2,
        })
        .collect()
}

fn shapes(r: usize, n: usize) -> Vec<String> {
    fn go(r: usize, n: usize, cur: &mut String, out: &mut Vec<String>) {
        if r == 0 && n == 0 {
            out.push(cur.clone());
            return;
        }
        if r > 0 { cur.push('R'); go(r - 1, n, cur, out); cur.pop(); }
        if n > 0 { cur.push('N'); go(r, n - 1, cur, out); cur.pop(); }
    }
    let mut out = vec![];
    go(r, n, &mut String::new(), &mut out);
    out
}

pub fn generate(rng: &mut Rng, thorough: bool) -> Vec<Value> {
    let mut out = vec![];
    // exhaustive: every order of <= 2 requests and <= 2 notifications, every interleaving
    let mut rot = 0usize;
    for r in 0..=2 {
        for n in 0..=2 {
            if r + n == 0 { continue; }
            for shape in shapes(r, n) {
                let kinds: Vec<u8> = shape.chars().map(|c| if c == 'R' { 0 } else { 1 }).collect();
                let mut scheds = all_schedules(&kinds);
                let all_variants = scheds.len() <= 30 || thorough;
                // quick tier: the shapes with 1 050 interleavings (two requests in flight and a
                // notification behind them: RRN, and RRNN / NRRN whose runs are those of RRN
                // with a forced head or tail) are sampled; every other shape is complete.
                // The thorough tier runs all of them, with all four contents.
                if !thorough && scheds.len() > 300 {
                    let k = if shape.len() == 3 { 450 } else { 150 };
                    let mut sample = vec![];
                    for _ in 0..k { sample.push(scheds[rng.below(scheds.len())].clone()); }
                    scheds = sample;
                }
                for s in scheds {
                    let variants: Vec<usize> = if all_variants { vec![0, 1, 2, 3] } else { rot += 1; vec![rot % 4] };
                    for v in variants {
                        out.push(json!({"docs": docs(), "msgs": fill(&shape, v), "sched": s, "kind": format!("exhaustive:{}", shape)}));
                    }
                }
            }
        }
    }
    // slow workers: a notification meets a worker that stays alive for a long time (in every
    // phase: before it computed, before it responded, before it released its clone)
    let hold_ms = if thorough { 5000 } else { 1500 };
    for (k, sched) in [
        vec!["T", "T", "S0", "C0", "P0", "X0", "R"],
        vec!["T", "S0", "T", "C0", "P0", "X0", "R"],
        vec!["T", "S0", "C0", "T", "P0", "X0", "R"],
        vec!["T", "S0", "C0", "P0", "T", "X0", "R"],
    ].iter().enumerate() {
        out.push(json!({"docs": docs(), "msgs": fill("RN", k % 4), "sched": sched, "kind": "slow-worker", "hold_ms": hold_ms}));
    }
    // random beyond: more messages, other notifications, random walks
    let count = if thorough { 6000 } else { 200 };
    for _ in 0..count {
        let len = rng.range(3, 7);
        let mut msgs = vec![];
        let mut nn = 0;
        for i in 0..len {
            match rng.below(7) {
                0..=2 => msgs.push(json!({"t": "req", "id": i + 1, "key": *rng.pick(&["a", "a", "b", "c", "z"])})),
                3..=4 => { nn += 1; let k = *rng.pick(&["a", "a", "b", "c"]); msgs.push(json!({"t": "chg", "key": k, "text": text(k, nn)})) }
                5 => { nn += 1; let k = *rng.pick(&["a", "b", "c"]); msgs.push(json!({"t": "sav", "key": k, "text": if rng.chance(2, 3) { json!(text(k, nn + 10)) } else { Value::Null }})) }
                _ => msgs.push(json!({"t": "oth"})),
            }
        }
        let kinds = kinds_of(&msgs);
        let sched = random_schedule(&kinds, rng);
        out.push(json!({"docs": docs(), "msgs": msgs.clone(), "sched": sched.clone(), "kind": "random"}));
        // the same messages sent the way an editor sends them: without waiting for the loop, so that
        // they queue up in the inbox (the schedule is then only what the model runs: by
        // C11_computed_from_prefix the answers do not depend on it)
        if out.len() % 2 == 0 {
            out.push(json!({"docs": docs(), "msgs": msgs, "sched": sched, "kind": "random-preload", "preload": true}));
        }
    }
    // two edits of one note with a request between them, queued behind a request and an edit of another note
    for (i, key) in ["a", "b"].iter().enumerate() {
        let msgs = vec![
            json!({"t": "req", "id": 1, "key": "c"}),
            json!({"t": "chg", "key": "c", "text": text("c", 1)}),
            json!({"t": "chg", "key": key, "text": text(key, 2 + i)}),
            json!({"t": "req", "id": 4, "key": key}),
            json!({"t": "chg", "key": key, "text": text(key, 5 + i)}),
        ];
        let kinds = kinds_of(&msgs);
        let sched = random_schedule(&kinds, rng);
        out.push(json!({"docs": docs(), "msgs": msgs, "sched": sched, "kind": "queued-edits", "preload": true}));
    }
    out
}

pub fn label(v: &Value) -> String {
    v["kind"].as_str().unwrap_or("corpus").to_string()
}

// ---------------------------------------------------------------- execution

fn fmt_params(key: &str) -> Value {
    json!({"textDocument": {"uri": drv::uri(key)}, "options": {"tabSize": 2, "insertSpaces": true}})
}

fn version_of(text: &str) -> i32 {
    let h = text.bytes().fold(0x811c9dc5u32, |h, b| (h ^ b as u32).wrapping_mul(16777619));
    1 + (h % 6) as i32
}

fn send_msg(srv: &Srv, m: &Value) {
    let key = m["key"].as_str().unwrap_or("");
    match m["t"].as_str() {
        Some("req") => srv.request(m["id"].as_i64().unwrap_or(0) as i32, "textDocument/formatting", fmt_params(key)),
        // document versions restart when the editor closes and re-opens a buffer, so a later change may
        // carry a lower or an equal number: derived from the text (no draw from the PRNG)
        Some("chg") => srv.notify("textDocument/didChange", json!({"textDocument": {"uri": drv::uri(key), "version": version_of(m["text"].as_str().unwrap_or(""))}, "contentChanges": [{"text": m["text"]}]})),
        Some("sav") => {
            let mut p = json!({"textDocument": {"uri": drv::uri(key)}});
            if !m["text"].is_null() { p["text"] = m["text"].clone(); }
            srv.notify("textDocument/didSave", p)
        }
        _ => srv.notify("initialized", json!({})),
    }
}

fn body_of(r: &lsp_server::Response) -> String {
    if r.error.is_some() {
        return "Check_C11.OErr".into();
    }
    match &r.result {
        None | Some(Value::Null) => "Check_C11.ONull".into(),
        Some(v) => match v.get(0).and_then(|e| e.get("newText")).and_then(|t| t.as_str()) {
            Some(t) => format!("(Check_C11.OText {})", gstr(t)),
            None => format!("(Check_C11.OText {})", gstr(&v.to_string())),
        },
    }
}

fn gmsg(m: &Value) -> String {
    let key = m["key"].as_str().unwrap_or("");
    match m["t"].as_str() {
        Some("req") => format!("(Router.MReq (Router.Rq {} (Router.KPlain {})))", m["id"].as_u64().unwrap_or(0), gstr(key)),
        Some("chg") => format!("(Router.MNote ({}, Some {}))", gstr(key), gstr(m["text"].as_str().unwrap_or(""))),
        Some("sav") => match m["text"].as_str() {
            Some(t) => format!("(Router.MNote ({}, Some {}))", gstr(key), gstr(t)),
            None => format!("(Router.MNote ({}, None))", gstr(key)),
        },
        _ => "Router.MOther".to_string(),
    }
}

fn glabel(l: &str) -> String {
    match l {
        "T" => "Router.LoopTake".into(),
        "R" => "Router.LoopResume".into(),
        _ => format!("({} {})", match &l[..1] { "S" => "Router.WStart", "C" => "Router.WCompute", "P" => "Router.WRespond", _ => "Router.WExit" }, &l[1..]),
    }
}

pub fn execute(v: &Value) -> String {
    drv::install_panic_hook();
    let docs: Vec<(String, String)> = v["docs"].as_array().map(|a| a.as_slice()).unwrap_or(&[]).iter()
        .map(|d| (d[0].as_str().unwrap_or("").to_string(), d[1].as_str().unwrap_or("").to_string())).collect();
    let msgs: Vec<Value> = v["msgs"].as_array().cloned().unwrap_or_default();
    let sched: Vec<String> = v["sched"].as_array().map(|a| a.iter().map(|x| x.as_str().unwrap_or("").to_string()).collect()).unwrap_or_default();
    let id_at = |p: usize| -> i32 { msgs.get(p).and_then(|m| m["id"].as_i64()).unwrap_or(-1) as i32 };
    // "slow worker" cases: how long the worker a notification met is kept alive before the
    // schedule goes on (the loop has to wait however long that takes)
    let hold = Duration::from_millis(v["hold_ms"].as_u64().unwrap_or(0));

    let mut srv = Srv::start(&docs, drv::configuration(false), true);
    let mut taken = 0usize;
    let mut live: Vec<usize> = vec![];               // positions of workers not yet gone
    let mut at_exit: Vec<usize> = vec![];            // workers that reached the Exit pause early (panic path)
    let mut pending_note: Option<usize> = None;      // a notification whose end has not been seen
    let mut drops: Vec<usize> = vec![];
    let mut realised = true;

    let preload = v["preload"].as_bool() == Some(true);
    if preload {
        // the first message alone (a request is held at its start, so that a following notification makes
        // the loop wait), then everything else at once; after that nothing is held back
        if let Some(m) = msgs.get(0) {
            send_msg(&srv, m);
            if m["t"].as_str() == Some("req") { live.push(0); let _ = srv.wait_at(id_at(0), &[Point::Start], STEP_LIMIT); }
            else { let _ = srv.wait_note_begin(STEP_LIMIT); if let Some(true) = srv.wait_note_end(STEP_LIMIT) { drops.push(0); } }
        }
        for m in msgs.iter().skip(1) { send_msg(&srv, m); }
        std::thread::sleep(Duration::from_millis(150));
        srv.free_run();
        for (p, m) in msgs.iter().enumerate().skip(1) {
            if m["t"].as_str() == Some("req") { live.push(p); }
            else {
                if !srv.wait_note_begin(STEP_LIMIT) { realised = false; break; }
                match srv.wait_note_end(Duration::from_secs(20)) { Some(true) => drops.push(p), Some(false) => {}, None => { realised = false; break; } }
            }
        }
    }
    for l in &sched {
        if preload { break; }
        let ok = if l == "T" {
            let Some(m) = msgs.get(taken) else { realised = false; break };
            let p = taken;
            taken += 1;
            send_msg(&srv, m);
            if m["t"].as_str() == Some("req") {
                live.push(p);
                srv.wait_at(id_at(p), &[Point::Start], STEP_LIMIT).is_some()
            } else if !srv.wait_note_begin(STEP_LIMIT) {
                false
            } else {
                let meets = !live.is_empty() && m["t"].as_str() != Some("oth");
                match srv.wait_note_end(if meets { MEET_WAIT } else { STEP_LIMIT }) {
                    Some(panicked) => { if panicked { drops.push(p); } true }
                    None => { pending_note = Some(p); if meets && !hold.is_zero() { std::thread::sleep(hold); } meets }
                }
            }
        } else if l == "R" {
            match pending_note.take() {
                None => true, // its end was already seen (a tree that does not wait)
                Some(p) => match srv.wait_note_end(STEP_LIMIT) {
                    Some(panicked) => { if panicked { drops.push(p); } true }
                    None => false,
                },
            }
        } else {
            let p: usize = l[1..].parse().unwrap_or(usize::MAX);
            let id = id_at(p);
            match &l[..1] {
                "S" => { srv.permit(id, Point::Start); true }
                "C" => match srv.wait_at(id, &[Point::Respond, Point::Exit], STEP_LIMIT) {
                    Some((Point::Exit, _)) => { at_exit.push(p); true }
                    Some(_) => true,
                    None => false,
                },
                "P" => {
                    if at_exit.contains(&p) { true } else {
                        srv.permit(id, Point::Respond);
                        srv.wait_at(id, &[Point::Exit], STEP_LIMIT).is_some()
                    }
                }
                _ => {
                    srv.permit(id, Point::Exit);
                    let gone = srv.wait_gone(id, STEP_LIMIT);
                    live.retain(|q| *q != p);
                    gone
                }
            }
        };
        if !ok { realised = false; break; }
    }
    // let everything run out
    srv.free_run();
    for p in live.clone() { let _ = srv.wait_gone(id_at(p), Duration::from_secs(2)); }
    if pending_note.is_some() {
        if let Some(true) = srv.wait_note_end(Duration::from_secs(2)) { drops.push(pending_note.unwrap()); }
    }
    srv.drain();
    let mut resps: Vec<(i64, String)> = srv.received.iter().filter_map(|m| match m {
        Message::Response(r) => Some((r.id.to_string().parse::<i64>().unwrap_or(-1), body_of(r))),
        _ => None,
    }).collect();
    resps.sort_by_key(|x| x.0);

    // the state at quiescence: formatting of every note that was mentioned
    let mut keys: Vec<String> = docs.iter().map(|d| d.0.clone()).collect();
    for m in &msgs { if let Some(k) = m["key"].as_str() { keys.push(k.to_string()); } }
    keys.sort();
    keys.dedup();
    let before = srv.received.len();
    let mut finals = vec![];
    for (i, k) in keys.iter().enumerate() {
        let id = 1000 + i as i32;
        srv.request(id, "textDocument/formatting", fmt_params(k));
        let _ = srv.wait_gone(id, STEP_LIMIT);
        srv.drain();
        let t = drv::responses_to(&srv.received[before..], id).first()
            .and_then(|r| r.result.as_ref()).and_then(|v| v.get(0)).and_then(|e| e.get("newText")).and_then(|t| t.as_str()).map(|s| s.to_string());
        finals.push(gpair(&gstr(k), &gopt(t.map(|s| gstr(&s)))));
    }
    let loop_code = srv.finish(true, Duration::from_secs(5));
    let _ = drv::take_panics();

    gapp("Check_C11.Case", &[
        glist(&docs.iter().map(|d| gpair(&gstr(&d.0), &gstr(&d.1))).collect::<Vec<_>>()),
        glist(&msgs.iter().map(gmsg).collect::<Vec<_>>()),
        glist(&sched.iter().map(|l| glabel(l)).collect::<Vec<_>>()),
        glist(&resps.iter().map(|(id, b)| gpair(&format!("{}%N", id), b)).collect::<Vec<_>>()),
        glist(&finals),
        glist(&drops.iter().map(|p| format!("{}%N", p)).collect::<Vec<_>>()),
        gbool(realised),
        gn(loop_code),
    ])
}
