//! C13 — positions: the real reader's line / inline ranges, `Document::link_at` and
//! `key_range` at every (line, character) of a grid over the text, the line -> node map of
//! the note imported alone, and pulldown-cmark's own event stream with byte ranges (same
//! Options as the reader) as the independent oracle.
use crate::gal::*;
use crate::gen;
use crate::lib_stage::{gres, panic_msg};
use crate::rng::Rng;
use crate::PropModule;
use liwe::graph::{Graph, GraphContext, Reader};
use liwe::markdown::MarkdownReader;
use liwe::model::config::MarkdownOptions;
use liwe::model::document::{DocumentBlock, DocumentInline, LinkType};
use liwe::model::{InlineRange, Key, Position, State};
use pulldown_cmark::{Event, Options, Parser, Tag, TagEnd};
use serde_json::{json, Value};
use std::panic::{catch_unwind, AssertUnwindSafe};

pub fn module() -> PropModule {
    PropModule { coq_module: "Check_C13", runner: "Check_C13.run", generate, execute, label }
}

// ------------------------------------------------------------------ dump

/// text as a Coq string (`gal::gstr` prints control bytes as an `N` byte list)
fn gtext(s: &str) -> String {
    gstr(s)
}

fn gpos(p: &Position) -> String {
    format!("({}, {})", p.line, p.character)
}

fn girange(r: &InlineRange) -> String {
    format!("({}, {})", gpos(&r.start), gpos(&r.end))
}

fn glt(t: LinkType) -> &'static str {
    match t {
        LinkType::Regular => "Regular",
        LinkType::WikiLink => "WikiLink",
        LinkType::WikiLinkPiped => "WikiLinkPiped",
    }
}

fn pinl(i: &DocumentInline) -> String {
    let kids = |l: &Vec<DocumentInline>| glist(&l.iter().map(pinl).collect::<Vec<_>>());
    match i {
        DocumentInline::Str(s) => format!("(PStr {})", s.len()),
        DocumentInline::Code(c) => format!("(PLeaf {} {})", girange(&c.inline_range), c.text.len()),
        DocumentInline::Math(m) => format!("(PLeaf {} 0)", girange(&m.inline_range)),
        DocumentInline::Emph(e) => format!("(PNode KEmph {} {})", girange(&e.inline_range), kids(&e.inlines)),
        DocumentInline::Strong(e) => format!("(PNode KStrong {} {})", girange(&e.inline_range), kids(&e.inlines)),
        DocumentInline::Strikeout(e) => format!("(PNode KStrike {} {})", girange(&e.inline_range), kids(&e.inlines)),
        DocumentInline::Image(e) => format!("(PNode KImage {} {})", girange(&e.inline_range), kids(&e.inlines)),
        DocumentInline::Link(l) => format!(
            "(PNode (KLink {} {}) {} {})",
            glt(l.link_type),
            gtext(&l.target.url),
            girange(&l.inline_range),
            kids(&l.inlines)
        ),
        other => panic!("harness: unmodelled DocumentInline {:?}", other),
    }
}

fn lr(r: &std::ops::Range<usize>) -> String {
    format!("({}, {})", r.start, r.end)
}

pub fn pblock(b: &DocumentBlock) -> String {
    let inl = |l: &Vec<DocumentInline>| glist(&l.iter().map(pinl).collect::<Vec<_>>());
    let blocks = |l: &Vec<DocumentBlock>| glist(&l.iter().map(pblock).collect::<Vec<_>>());
    match b {
        DocumentBlock::Para(p) => format!("(BPara {} {})", lr(&p.line_range), inl(&p.inlines)),
        DocumentBlock::Header(h) => format!("(BHeader {} {})", lr(&h.line_range), inl(&h.inlines)),
        DocumentBlock::CodeBlock(c) => format!("(BCode {})", lr(&c.line_range)),
        DocumentBlock::BlockQuote(q) => format!("(BQuote {} {})", lr(&q.line_range), blocks(&q.blocks)),
        DocumentBlock::OrderedList(l) => format!("(BList {})", glist(&l.items.iter().map(|i| blocks(i)).collect::<Vec<_>>())),
        DocumentBlock::BulletList(l) => format!("(BList {})", glist(&l.items.iter().map(|i| blocks(i)).collect::<Vec<_>>())),
        DocumentBlock::HorizontalRule(r) => format!("(BRule {})", lr(&r.line_range)),
        DocumentBlock::Table(t) => format!(
            "(BTable {} {} {})",
            lr(&t.line_range),
            glist(&t.header.iter().map(|c| inl(c)).collect::<Vec<_>>()),
            glist(&t.rows.iter().map(|r| glist(&r.iter().map(|c| inl(c)).collect::<Vec<_>>())).collect::<Vec<_>>())
        ),
        other => panic!("harness: unmodelled DocumentBlock {:?}", other),
    }
}

fn gtag(t: &Tag) -> String {
    match t {
        Tag::Paragraph => "TPara".into(),
        Tag::Heading { .. } => "THeading".into(),
        Tag::BlockQuote(_) => "TQuote".into(),
        Tag::CodeBlock(_) => "TCodeBlock".into(),
        Tag::HtmlBlock => "THtmlBlock".into(),
        Tag::List(_) => "TList".into(),
        Tag::Item => "TItem".into(),
        Tag::Table(_) => "TTable".into(),
        Tag::TableHead => "TTableHead".into(),
        Tag::TableRow => "TTableRow".into(),
        Tag::TableCell => "TTableCell".into(),
        Tag::Emphasis => "TEmph".into(),
        Tag::Strong => "TStrong".into(),
        Tag::Strikethrough => "TStrike".into(),
        Tag::Link { link_type, dest_url, .. } => {
            let lt = match link_type {
                pulldown_cmark::LinkType::WikiLink { has_pothole: true } => "WikiLinkPiped",
                pulldown_cmark::LinkType::WikiLink { has_pothole: false } => "WikiLink",
                _ => "Regular",
            };
            format!("(TLink {} {})", lt, gtext(dest_url))
        }
        Tag::Image { .. } => "TImage".into(),
        Tag::MetadataBlock(_) => "TMeta".into(),
        _ => "TOther".into(),
    }
}

fn gtag_end(t: &TagEnd) -> &'static str {
    match t {
        TagEnd::Paragraph => "TPara",
        TagEnd::Heading(_) => "THeading",
        TagEnd::BlockQuote(_) => "TQuote",
        TagEnd::CodeBlock => "TCodeBlock",
        TagEnd::HtmlBlock => "THtmlBlock",
        TagEnd::List(_) => "TList",
        TagEnd::Item => "TItem",
        TagEnd::Table => "TTable",
        TagEnd::TableHead => "TTableHead",
        TagEnd::TableRow => "TTableRow",
        TagEnd::TableCell => "TTableCell",
        TagEnd::Emphasis => "TEmph",
        TagEnd::Strong => "TStrong",
        TagEnd::Strikethrough => "TStrike",
        TagEnd::Link => "(TLink Regular \"\")",
        TagEnd::Image => "TImage",
        TagEnd::MetadataBlock(_) => "TMeta",
        _ => "TOther",
    }
}

pub fn reader_options() -> Options {
    // crates/liwe/src/markdown/reader.rs:47-52
    Options::ENABLE_YAML_STYLE_METADATA_BLOCKS | Options::ENABLE_WIKILINKS | Options::ENABLE_TABLES
}

fn events(text: &str) -> Vec<String> {
    let mut out = vec![];
    for (ev, r) in Parser::new_ext(text, reader_options()).into_offset_iter() {
        let (s, e) = (r.start, r.end);
        out.push(match &ev {
            Event::Start(t) => format!("EStart {} {} {}", gtag(t), s, e),
            Event::End(t) => format!("EEnd {}", gtag_end(t)),
            Event::Text(x) => format!("EText {} {} {}", x.len(), s, e),
            Event::Code(x) => format!("ECode {} {} {}", x.len(), s, e),
            Event::InlineMath(_) => format!("EMath {} {}", s, e),
            Event::InlineHtml(x) => format!("EInlineHtml {} {} {}", x.len(), s, e),
            Event::SoftBreak | Event::HardBreak => format!("EBreak {} {}", s, e),
            Event::Rule => format!("ERule {} {}", s, e),
            _ => "ESkip".to_string(),
        });
    }
    out
}

// ------------------------------------------------------------------ execute

const MAX_LINES: usize = 48;
const MAX_COLS: usize = 90;

pub fn execute(v: &Value) -> String {
    // "via_edit": the text under test is the server's own rendering F of the given text T, and the
    // graph the line map is read from REACHED F through an edit: a Database loaded with T (another
    // layout of the same note) receives update_document(F).  Everything below is about F.
    let given = v["text"].as_str().unwrap();
    let via_edit = v["via_edit"].as_bool().unwrap_or(false);
    let opts = || MarkdownOptions { refs_extension: String::new() };
    let formatted: Option<String> = if via_edit {
        catch_unwind(AssertUnwindSafe(|| {
            let st: State = vec![("n".to_string(), given.to_string())].into_iter().collect();
            Graph::import(&st, opts()).to_markdown(&Key::from_file_name("n"))
        })).ok().filter(|f| f != given)
    } else { None };
    let text: &str = match &formatted { Some(f) => f.as_str(), None => given };
    let evs = catch_unwind(AssertUnwindSafe(|| events(text))).unwrap_or_default();
    let doc = catch_unwind(AssertUnwindSafe(|| MarkdownReader::new().document(text)));

    // the grid: every line of the text and one beyond, every column up to 2 past the line's
    // length in bytes (which bounds the UTF-16 length)
    let mut rows = vec![];
    let mut line_lens: Vec<usize> = text.split('\n').map(|l| l.len()).collect();
    line_lens.push(0);
    for (n, len) in line_lens.iter().enumerate().take(MAX_LINES) {
        rows.push((n, (len + 3).min(MAX_COLS)));
    }

    let mut hits = vec![];
    let doc_term = match &doc {
        Err(e) => gres(Err(panic_msg_ref(e))),
        Ok(d) => {
            for (line, ncols) in &rows {
                let mut run: Option<(usize, String)> = None;
                for col in 0..=*ncols {
                    let r = if col == *ncols {
                        None
                    } else {
                        let p = Position { line: *line, character: col };
                        match catch_unwind(AssertUnwindSafe(|| d.link_at(p).map(|l| (pinl(&l), l.key_range().map(|k| girange(&k)))))) {
                            Ok(None) => None,
                            Ok(Some((l, kr))) => Some(format!("(LHit {} {})", l, gopt(kr))),
                            Err(_) => Some("LPanic".to_string()),
                        }
                    };
                    let same = match (&run, &r) {
                        (Some((_, a)), Some(b)) => a == b,
                        _ => false,
                    };
                    if !same {
                        if let Some((from, term)) = run.take() {
                            hits.push(format!("({}, ({}, {}), {})", line, from, col, term));
                        }
                        if let Some(term) = r {
                            run = Some((col, term));
                        }
                    }
                }
            }
            gres(catch_unwind(AssertUnwindSafe(|| glist(&d.blocks.iter().map(pblock).collect::<Vec<_>>()))).map_err(|e| panic_msg_ref(&e)))
        }
    };

    // the note imported alone: line ranges of its nodes (by node id) and get_node_id_at per line
    let key = Key::from_file_name("n");
    let state: State = vec![("n".to_string(), text.to_string())].into_iter().collect();
    let imported = catch_unwind(AssertUnwindSafe(|| match &formatted {
        None => Graph::import(&state, opts()),
        Some(f) => {
            let st: State = vec![("n".to_string(), given.to_string())].into_iter().collect();
            let mut db = liwe::database::Database::new(st, true, opts());
            db.update_document(key.clone(), f.clone());
            db.graph().clone()
        }
    }));
    let (map_term, node_at) = match &imported {
        Err(e) => (gres(Err(panic_msg_ref(e))), vec![]),
        Ok(g) => {
            // node ids are reported relative to the note's root (0 for a note imported alone; the
            // rebuilt note of an edited graph sits behind the tombstones of its first version)
            let off = catch_unwind(AssertUnwindSafe(|| g.get_document_id(&key))).unwrap_or(0);
            let mut map = vec![];
            for id in off..g.nodes().len() as u64 {
                if let Some(r) = g.node_line_range(id) {
                    map.push(format!("({}, {})", id - off, lr(&r)));
                }
            }
            let mut at = vec![];
            for (line, _) in &rows {
                let id = catch_unwind(AssertUnwindSafe(|| (&*g).get_node_id_at(&key, *line))).unwrap_or(None);
                at.push(gopt(id.map(|i| gn(i.saturating_sub(off)))));
            }
            (gres(Ok(glist(&map))), at)
        }
    };

    gapp(
        "Check_C13.Case",
        &[
            gtext(text),
            glist(&evs),
            doc_term,
            glist(&rows.iter().map(|(l, c)| format!("({}, {})", l, c)).collect::<Vec<_>>()),
            glist(&hits),
            map_term,
            glist(&node_at),
        ],
    )
}

fn panic_msg_ref(e: &Box<dyn std::any::Any + Send>) -> String {
    if let Some(s) = e.downcast_ref::<&str>() {
        s.to_string()
    } else if let Some(s) = e.downcast_ref::<String>() {
        s.clone()
    } else {
        "panic".to_string()
    }
}

#[allow(dead_code)]
fn _unused(e: Box<dyn std::any::Any + Send>) -> String {
    panic_msg(e)
}

// ------------------------------------------------------------------ generate

const PREFIX: &[&str] = &["", "", "text ", "a b ", "é ", "naïve café ", "日本語 ", "😀 ", "x😀y ", "𝒜𝒷 ", "ü", "\u{a0}", "*e* ", "`c` ", "**é** "];
const LINKS: &[&str] = &[
    "[link](to)", "[l](a/b)", "[two words](n1)", "[[wiki]]", "[[d/key|piped]]", "[t](u \"title\")", "<http://x.io>", "[*em*](k)",
    "[é](k)", "[😀](k2)", "[a\\*b](k)", "[a&amp;b](k)", "[`c`](k)", "[ref][r]", "![img](p.png)", "[![i](p.png)](k)", "[x](日本)", "[[ü]]",
    "[l](<a b>)", "[]( k )",
];
const SUFFIX: &[&str] = &["", "", " tail", " é", " 😀 end", " [second](s2)", " and [[w2]]"];

const PREFIX_CLEAN: &[&str] = &["", "", "text ", "a b ", "see: ", "*e* ", "`c` ", "x, "];
const LINKS_CLEAN: &[&str] = &["[link](to)", "[l](a/b)", "[two words](n1)", "[x](d/e/c)", "[long label here](k.md)"];
const SUFFIX_CLEAN: &[&str] = &["", "", " tail", " [second](s2)", ".", " *e*"];

fn line_with_link(rng: &mut Rng, clean: bool) -> String {
    if clean {
        format!("{}{}{}", rng.pick(PREFIX_CLEAN), rng.pick(LINKS_CLEAN), rng.pick(SUFFIX_CLEAN))
    } else {
        format!("{}{}{}", rng.pick(PREFIX), rng.pick(LINKS), rng.pick(SUFFIX))
    }
}

fn plain_line(rng: &mut Rng, clean: bool) -> String {
    let n = rng.range(1, 3);
    (0..n).map(|_| { let h = !clean && rng.chance(1, 3); gen::word(rng, h) }).collect::<Vec<_>>().join(" ")
}

/// small documents built around links in every block context the property text names
fn focused(rng: &mut Rng, clean: bool) -> String {
    let mut parts: Vec<String> = vec![];
    let n = rng.range(1, 4);
    for _ in 0..n {
        let l1 = line_with_link(rng, clean);
        let l2 = line_with_link(rng, clean);
        let p = plain_line(rng, clean);
        // a clean document stays inside the class the theorems cover: explicit paragraphs,
        // headings, loose items, quotes; ranges that end at a line end
        let part = match if clean { *rng.pick(&[0usize, 1, 2, 3, 4, 7, 8, 12, 14, 16, 17]) } else { rng.below(22) } {
            0 => l1,
            1 => format!("{}\n{}", p, l1),
            2 => format!("{}\n{}\n{}", p, l1, l2),
            3 => format!("# {}", l1),
            4 => format!("{}\n===", l1),
            5 => format!("- {}\n- {}", p, l1),
            6 => format!("- {}\n  {}\n- {}", p, l1, l2),
            7 => format!("- {}\n\n  {}", p, l1),
            8 => format!("> {}\n> {}", p, l1),
            9 => format!("> - {}\n>   {}", p, l1),
            10 => format!("| h | {} |\n|---|---|\n| {} | c |", p, l1),
            11 => format!("1. {}\n   - {}\n     {}", p, l1, l2),
            12 => format!("```\n{}\n```\n{}", l1, l2),
            13 => format!("-\n- {}", l1),
            14 => format!("{}  \n{}", l1, l2),
            16 => format!("- {}\n\n- {}\n\n  {}\n  {}", l1, p, p, l2),
            17 => format!("> {}\n>\n> # {}", l1, l2),
            // text of a TIGHT item that follows a block which is not a paragraph
            18 => format!("- ***\n  {}", l1),
            19 => format!("- {}\n  ```\n  c\n  ```\n  {}", p, l1),
            20 => format!("1. # {}\n   {}", p, l1),
            21 => format!("> - ***\n>   {}\n> - {}\n>   ***\n>   {}", l1, p, l2),
            _ => format!("* {}\n\n  > {}\n  > {}", p, l1, l2),
        };
        parts.push(part);
    }
    let sep = if rng.chance(1, 5) { "\n\n\n" } else { "\n\n" };
    let mut s = parts.join(sep);
    if rng.chance(1, 8) {
        s = format!("---\ntitle: t\n---\n\n{}", s);
    } else if rng.chance(1, 8) {
        // a note may open with empty lines: line numbers count from the first line of the text, not of its content
        s = format!("{}{}", rng.pick(&["\n", "\n\n", "\n\n\n"]), s);
    }
    if clean || !rng.chance(1, 3) {
        s.push('\n');
    }
    if !clean && rng.chance(1, 3) {
        s = s.replace('\n', "\r\n");
    }
    s
}

const TOKENS: &[&str] = &[
    "#", "-", ">", "`", "```", "|", "[", "]", "(", ")", "[[", "]]", "1.", " ", "  ", "\t", "\n", "\n", "\r\n", "\r", "é", "😀", "a", "b", "*", "_",
    "<", ">", "!", "\\", "---", "===", "[a](b)", "[[w]]", ":", "\n\n",
];

fn malformed(rng: &mut Rng) -> String {
    let n = rng.range(1, 40);
    (0..n).map(|_| *rng.pick(TOKENS)).collect()
}

fn structural(rng: &mut Rng, clean: bool) -> String {
    for _ in 0..20 {
        let targets: Vec<String> = if clean { vec!["a".into(), "d/b".into(), "n1".into()] } else { vec!["a".into(), "d/b".into(), "n1".into(), "ü".into()] };
        let ctx = gen::Ctx { targets: &targets, hostile: !clean && rng.chance(1, 2), max_depth: 3 };
        let doc = gen::document(rng, &ctx);
        let mut st = gen::Style::random(rng);
        if clean {
            st.crlf = false;
            st.final_newline = true;
        } else if rng.chance(1, 4) {
            st.crlf = true;
        }
        let fm = if rng.chance(1, 10) { Some("title: t\n") } else { None };
        let text = gen::document_src(&doc, &st, fm);
        if text.len() <= 700 {
            return text;
        }
    }
    "short [l](x)\n".to_string()
}

pub fn generate(rng: &mut Rng, thorough: bool) -> Vec<Value> {
    let mut out = vec![];
    let n = if thorough { 4000 } else { 250 };
    for i in 0..n {
        let (kind, text) = match i % 10 {
            0 | 1 | 2 => ("focused-clean", focused(rng, true)),
            3 | 4 => ("focused", focused(rng, false)),
            5 | 6 => ("structural-clean", structural(rng, true)),
            7 | 8 => ("structural", structural(rng, false)),
            _ => ("malformed", malformed(rng)),
        };
        // every fourth well-formed text is checked as the server writes it, on a graph that reached it by an edit
        if i % 4 == 1 && kind != "malformed" {
            out.push(json!({"text": text, "kind": kind, "via_edit": true}));
        } else {
            out.push(json!({"text": text, "kind": kind}));
        }
    }
    out
}

pub fn label(v: &Value) -> String {
    let t = v["text"].as_str().unwrap_or("");
    let eol = if t.contains("\r\n") { "crlf" } else if t.contains('\r') { "cr" } else { "lf" };
    let chars = if t.chars().any(|c| (c as u32) >= 0x10000) { "astral" } else if !t.is_ascii() { "non-ascii" } else { "ascii" };
    let fin = if t.ends_with('\n') { "nl" } else { "no-nl" };
    format!("{}{}:{}:{}:{}", v["kind"].as_str().unwrap_or("?"), if v["via_edit"].as_bool().unwrap_or(false) { "+via-edit" } else { "" }, eol, chars, fin)
}
