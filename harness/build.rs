//! Detects whether the iwes tree the harness is built against contains the router
//! scheduling hooks (`hook-router.patch`); the C11/C12 drivers need them.
fn main() {
    println!("cargo:rustc-check-cfg=cfg(have_router_hooks)");
    println!("cargo:rustc-check-cfg=cfg(iwe_verif)");
    println!("cargo:rerun-if-changed=Cargo.toml");
    let dir = std::env::var("CARGO_MANIFEST_DIR").unwrap();
    let manifest = std::fs::read_to_string(format!("{}/Cargo.toml", dir)).unwrap();
    let path = manifest
        .lines()
        .find(|l| l.trim_start().starts_with("iwes"))
        .and_then(|l| l.split('"').nth(1))
        .unwrap_or("/repo/crates/iwes")
        .to_string();
    let hooks = format!("{}/src/router/verif_hooks.rs", path);
    println!("cargo:rerun-if-changed={}", hooks);
    if std::path::Path::new(&hooks).exists() {
        println!("cargo:rustc-cfg=have_router_hooks");
    }
}
