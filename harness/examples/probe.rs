use liwe::graph::Graph;
use liwe::model::config::MarkdownOptions;
use std::collections::HashMap;
fn main() {
    let args: Vec<String> = std::env::args().collect();
    let mut state: HashMap<String, String> = HashMap::new();
    state.insert("n".into(), args[1].replace("\\n", "\n"));
    if args.len() > 2 { state.insert("o".into(), args[2].replace("\\n", "\n")); }
    let g = Graph::import(&state, MarkdownOptions::default());
    eprintln!("imported");
    let p = g.paths();
    eprintln!("paths {}", p.len());
    let s = g.search_paths();
    eprintln!("search {}", s.len());
}
