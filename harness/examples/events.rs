use pulldown_cmark::{Options, Parser};
fn main() {
    let t = std::env::args().nth(1).unwrap().replace("\\n", "\n").replace("\\r", "\r");
    let o = Options::ENABLE_YAML_STYLE_METADATA_BLOCKS | Options::ENABLE_WIKILINKS | Options::ENABLE_TABLES;
    for (e, r) in Parser::new_ext(&t, o).into_offset_iter() { println!("{:?} {:?}", e, r); }
}
